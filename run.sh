#!/bin/bash
# Entry point of every MANIFEST command: ./run.sh <ID> quick|thorough [--replay file]
# Exit codes: 0 held, 1 violation (VIOLATION line printed), 2 infrastructure/inconclusive.
set -u
HERE="$(cd "$(dirname "${BASH_SOURCE[0]}")" && pwd)"
export VERIF_DIR="${VERIF_DIR:-$HERE}"
export VERIF_REPO="${VERIF_REPO:-/repo}"
export VERIF_SEED="${VERIF_SEED:-1}"
export GOFLAGS=-mod=mod GOPROXY=off GOSUMDB=off GOTOOLCHAIN=local GONOSUMDB='*' GONOSUMCHECK=1 GOFLAGS_EXTRA=""
export CGO_ENABLED="${CGO_ENABLED:-1}"
case "$VERIF_SEED" in (*[!0-9]*|'') VERIF_SEED=1;; esac

export VERIF_CWD="$PWD"
cd "$HERE/harness" || exit 2

# alternative repository location (sensitivity experiments only): private go.mod copy
if [ "$VERIF_REPO" != "/repo" ]; then
  MODDIR="$(mktemp -d)"
  trap 'rm -rf "$MODDIR"' EXIT
  sed "s#=> /repo#=> $VERIF_REPO#" go.mod > "$MODDIR/go.mod"
  cp go.sum "$MODDIR/go.sum"
  export VERIF_MODFILE="$MODDIR/go.mod"
  MODFLAG="-modfile=$MODDIR/go.mod"
else
  MODFLAG=""
fi

BIN="$HERE/.bin/vcheck"
mkdir -p "$HERE/.bin"
if ! go build $MODFLAG -o "$BIN" ./cmd/vcheck 2> "$HERE/.bin/build.log"; then
  echo "INFRA: cannot build driver"; cat "$HERE/.bin/build.log"; exit 2
fi
"$BIN" "$@"
