package gen

import (
	"fmt"
	"strings"

	"pgregory.net/rapid"

	"verifh/cfg"
)

// Position kinds a reference can occur in.
var RefPositions = []string{
	"param-single", "param-multi", "param-after-percent",
	"svc-ctor-arg", "svc-call-arg", "svc-field", "dec-arg",
}

// Chooser picks an index in [0,n).
type Chooser func(n int, label string) int

// RapidChooser draws choices from rapid.
func RapidChooser(t *rapid.T) Chooser {
	return func(n int, label string) int { return rapid.IntRange(0, n-1).Draw(t, label) }
}

// FirstChooser always picks the first option (deterministic enumerations).
func FirstChooser(n int, label string) int { return 0 }

// refText spells a reference to a parameter in the given pattern shape.
func refText(t *rapid.T, name, shape, label string) string {
	switch shape {
	case "multi":
		return rapid.SampledFrom([]string{"pre-%" + name + "%", "%" + name + "%-post", "a %" + name + "% b", "%" + name + "%%" + name + "%"}).Draw(t, label+"-multi")
	case "after-percent":
		return rapid.SampledFrom([]string{"%%%" + name + "%", "100%%%" + name + "%", "%%%%%" + name + "%"}).Draw(t, label+"-ap")
	}
	return "%" + name + "%"
}

// refTextMany spells a pattern of 3 to 7 references in which the reference to name stands among references to
// declared parameters (the lists of names a pattern depends on grow with the number of tokens).
func refTextMany(t *rapid.T, c *cfg.Config, name, label string) string {
	var declared []string
	for _, p := range c.Params {
		if !strings.HasPrefix(p.Name, "zz-p") {
			declared = append(declared, p.Name)
		}
	}
	n := rapid.IntRange(3, 7).Draw(t, label+"-many-n")
	at := rapid.IntRange(0, n-1).Draw(t, label+"-many-at")
	var sb strings.Builder
	for i := 0; i < n; i++ {
		ref := name
		if i != at && len(declared) > 0 {
			ref = rapid.SampledFrom(declared).Draw(t, label+"-many-ref")
		}
		if i > 0 {
			sb.WriteString(rapid.SampledFrom([]string{"", " ", "-", "%%"}).Draw(t, label+"-many-sep"))
		}
		sb.WriteString("%" + ref + "%")
	}
	return sb.String()
}

// ensureCtorService returns the index of a service that has a constructor and is
// not todo (adding one if necessary), so that arguments can be attached.
func ensureCtorService(ch Chooser, c *cfg.Config, label string) int {
	var idx []int
	for i, s := range c.Services {
		if s.Ctor != nil && !s.IsTodo() {
			idx = append(idx, i)
		}
	}
	if len(idx) == 0 {
		c.Services = append(c.Services, cfg.Service{Name: "zz-host", Ctor: cfg.P("fx/lib.NewObj")})
		return len(c.Services) - 1
	}
	return idx[ch(len(idx), label)]
}

func structService(ch Chooser, c *cfg.Config, label string) int {
	var idx []int
	for i, s := range c.Services {
		if s.IsTodo() {
			continue
		}
		if s.Ctor != nil && (strings.HasSuffix(*s.Ctor, "NewObj") || strings.HasSuffix(*s.Ctor, "NewVal") || strings.HasSuffix(*s.Ctor, "NewObjE")) {
			idx = append(idx, i)
		}
	}
	if len(idx) == 0 {
		c.Services = append(c.Services, cfg.Service{Name: "zz-struct", Ctor: cfg.P("fx/lib.NewObj")})
		return len(c.Services) - 1
	}
	return idx[ch(len(idx), label)]
}

// AddReference writes `text` (a whole argument string) at a position of the given
// kind; returns a description of where it went. Parameter positions only make
// sense for %param% references.
func AddReference(ch Chooser, c *cfg.Config, pos, text, label string) string {
	switch pos {
	case "param-single", "param-multi", "param-after-percent":
		name := fmt.Sprintf("zz-p%d", len(c.Params))
		c.Params = append(c.Params, cfg.Param{Name: name, Val: cfg.Str(text)})
		return "%" + name + "%"
	case "svc-ctor-arg":
		i := ensureCtorService(ch, c, label+"-svc")
		s := &c.Services[i]
		at := ch(len(s.Args)+1, label+"-at")
		s.Args = append(s.Args[:at:at], append([]cfg.Val{cfg.Str(text)}, s.Args[at:]...)...)
		return "@" + s.Name
	case "svc-call-arg":
		i := structService(ch, c, label+"-svc")
		s := &c.Services[i]
		if len(s.Calls) == 0 || ch(2, label+"-newcall") == 1 {
			s.Calls = append(s.Calls, cfg.Call{Method: "Call1", Args: []cfg.Val{cfg.Str(text)}})
		} else {
			k := ch(len(s.Calls), label+"-call")
			s.Calls[k].Args = append(s.Calls[k].Args, cfg.Str(text))
		}
		return "@" + s.Name
	case "svc-field":
		i := structService(ch, c, label+"-svc")
		s := &c.Services[i]
		for _, fn := range []string{"FieldB", "FieldA", "fieldC"} {
			used := false
			for _, f := range s.Fields {
				used = used || f.Name == fn
			}
			if !used {
				s.Fields = append(s.Fields, cfg.Field{Name: fn, Val: cfg.Str(text)})
				return "@" + s.Name
			}
		}
		s.Fields[0].Val = cfg.Str(text)
		return "@" + s.Name
	case "dec-arg":
		if len(c.Decorators) == 0 || ch(2, label+"-newdec") == 1 {
			c.Decorators = append(c.Decorators, cfg.Decorator{Tag: "zz-unused-tag", Fn: "fx/lib.Decorate", Args: []cfg.Val{cfg.Str(text)}})
			return fmt.Sprintf("decorator#%d", len(c.Decorators)-1)
		}
		k := ch(len(c.Decorators), label+"-dec")
		c.Decorators[k].Args = append(c.Decorators[k].Args, cfg.Str(text))
		return fmt.Sprintf("decorator#%d", k)
	}
	panic("unknown position " + pos)
}

// InjectDanglingParam adds a reference to an undeclared parameter.
func InjectDanglingParam(t *rapid.T, c *cfg.Config, label string) string {
	pos := rapid.SampledFrom(RefPositions).Draw(t, label+"-pos")
	shape := "single"
	switch pos {
	case "param-multi":
		shape = "multi"
	case "param-after-percent":
		shape = "after-percent"
	default:
		shape = rapid.SampledFrom([]string{"single", "multi", "after-percent", "many"}).Draw(t, label+"-shape")
	}
	name := rapid.SampledFrom([]string{"zz-missing", "nope", "gone.param", "m_1", "A0"}).Draw(t, label+"-name")
	text := ""
	if shape == "many" {
		text = refTextMany(t, c, name, label)
	} else {
		text = refText(t, name, shape, label)
	}
	AddReference(RapidChooser(t), c, pos, text, label)
	return "dangling-param:" + pos + ":" + shape
}

// InjectDanglingService adds a reference to an undeclared service.
func InjectDanglingService(t *rapid.T, c *cfg.Config, label string) string {
	pos := rapid.SampledFrom(RefPositions[3:]).Draw(t, label+"-pos")
	name := rapid.SampledFrom([]string{"zz-gone", "nosvc", "gone.svc", "g_2"}).Draw(t, label+"-name")
	AddReference(RapidChooser(t), c, pos, "@"+name, label)
	return "dangling-service:" + pos
}

// RemoveDeclaration deletes a declared parameter or service (its references stay).
func RemoveDeclaration(t *rapid.T, c *cfg.Config, label string) string {
	if len(c.Params) > 0 && (len(c.Services) == 0 || rapid.Bool().Draw(t, label+"-which")) {
		i := rapid.IntRange(0, len(c.Params)-1).Draw(t, label+"-p")
		c.Params = append(c.Params[:i:i], c.Params[i+1:]...)
		return "remove-param"
	}
	if len(c.Services) > 0 {
		i := rapid.IntRange(0, len(c.Services)-1).Draw(t, label+"-s")
		c.Services = append(c.Services[:i:i], c.Services[i+1:]...)
		return "remove-service"
	}
	return "remove-nothing"
}

// MakeTodo turns a declared parameter or service into a todo placeholder; it stays declared.
func MakeTodo(t *rapid.T, c *cfg.Config, label string) string {
	if len(c.Params) > 0 && (len(c.Services) == 0 || rapid.Bool().Draw(t, label+"-which")) {
		i := rapid.IntRange(0, len(c.Params)-1).Draw(t, label+"-p")
		c.Params[i].Val = cfg.Str(rapid.SampledFrom([]string{`%todo()%`, `%todo("later")%`}).Draw(t, label+"-form"))
		return "todo-param"
	}
	if len(c.Services) > 0 {
		i := rapid.IntRange(0, len(c.Services)-1).Draw(t, label+"-s")
		c.Services[i] = cfg.Service{Name: c.Services[i].Name, Todo: cfg.P(true)}
		return "todo-service"
	}
	return "todo-nothing"
}

// InjectCycle adds references that close a dependency cycle. Names carry the label, so several injected cycles coexist.
func InjectCycle(t *rapid.T, c *cfg.Config, label string) string {
	kind := rapid.SampledFrom([]string{"param-self", "param-pair", "service-self", "service-pair", "tag-loop", "decorator-loop", "param-cycles-hub"}).Draw(t, label+"-kind")
	n := func(s string) string { return "zz-" + label + "-" + s }
	switch kind {
	case "param-self":
		c.Params = append(c.Params, cfg.Param{Name: n("cyc"), Val: cfg.Str("x%" + n("cyc") + "%")})
	case "param-pair":
		c.Params = append(c.Params, cfg.Param{Name: n("c1"), Val: cfg.Str("%" + n("c2") + "%")}, cfg.Param{Name: n("c2"), Val: cfg.Str("%" + n("c1") + "%%%")})
	case "service-self":
		c.Services = append(c.Services, cfg.Service{Name: n("self"), Ctor: cfg.P("fx/lib.NewObj"), Args: []cfg.Val{cfg.Str("@" + n("self"))}})
	case "service-pair":
		c.Services = append(c.Services,
			cfg.Service{Name: n("a"), Ctor: cfg.P("fx/lib.NewObj"), Fields: []cfg.Field{{Name: "FieldA", Val: cfg.Str("@" + n("b"))}}},
			cfg.Service{Name: n("b"), Ctor: cfg.P("fx/lib.NewObj"), Calls: []cfg.Call{{Method: "Call1", Args: []cfg.Val{cfg.Str("@" + n("a"))}}}})
	case "tag-loop":
		c.Services = append(c.Services, cfg.Service{Name: n("t"), Ctor: cfg.P("fx/lib.NewObj"), Args: []cfg.Val{cfg.Str("!tagged " + n("loop"))}, Tags: []cfg.Tag{{Name: n("loop")}}})
	case "decorator-loop":
		c.Services = append(c.Services, cfg.Service{Name: n("d"), Ctor: cfg.P("fx/lib.NewObj"), Tags: []cfg.Tag{{Name: n("dl")}}})
		c.Decorators = append(c.Decorators, cfg.Decorator{Tag: n("dl"), Fn: "fx/lib.Decorate", Args: []cfg.Val{cfg.Str("@" + n("d"))}})
	case "param-cycles-hub":
		// several independent parameter cycles, all first reached from one service (and one decorator)
		k := rapid.IntRange(2, 4).Draw(t, label+"-hub")
		hub := cfg.Service{Name: n("hub"), Ctor: cfg.P("fx/lib.NewObj"), Tags: []cfg.Tag{{Name: n("ht")}}}
		dec := cfg.Decorator{Tag: n("ht"), Fn: "fx/lib.Decorate"}
		for i := 0; i < k; i++ {
			p1, p2 := n(fmt.Sprintf("h%da", i)), n(fmt.Sprintf("h%db", i))
			c.Params = append(c.Params, cfg.Param{Name: p1, Val: cfg.Str("%" + p2 + "%")}, cfg.Param{Name: p2, Val: cfg.Str("-%" + p1 + "%")})
			hub.Args = append(hub.Args, cfg.Str("%"+p1+"%"))
			dec.Args = append([]cfg.Val{cfg.Str("%" + p2 + "%")}, dec.Args...)
		}
		c.Services = append(c.Services, hub)
		c.Decorators = append(c.Decorators, dec)
	}
	return "cycle:" + kind
}

// InjectScopeConflict makes a shared service depend on a contextual one.
func InjectScopeConflict(t *rapid.T, c *cfg.Config, label string) string {
	via := rapid.SampledFrom([]string{"arg", "field", "tag", "transitive"}).Draw(t, label+"-via")
	ctx := cfg.Service{Name: "zz-ctx", Ctor: cfg.P("fx/lib.NewObj"), Scope: cfg.P("contextual")}
	sh := cfg.Service{Name: "zz-shared", Ctor: cfg.P("fx/lib.NewObj"), Scope: cfg.P("shared")}
	switch via {
	case "arg":
		sh.Args = []cfg.Val{cfg.Str("@zz-ctx")}
	case "field":
		sh.Fields = []cfg.Field{{Name: "FieldA", Val: cfg.Str("@zz-ctx")}}
	case "tag":
		ctx.Tags = []cfg.Tag{{Name: "zz-ctxtag"}}
		sh.Args = []cfg.Val{cfg.Str("!tagged zz-ctxtag")}
	case "transitive":
		c.Services = append(c.Services, cfg.Service{Name: "zz-mid", Ctor: cfg.P("fx/lib.NewObj"), Args: []cfg.Val{cfg.Str("@zz-ctx")}})
		sh.Args = []cfg.Val{cfg.Str("@zz-mid")}
	}
	c.Services = append(c.Services, ctx, sh)
	return "scope:" + via
}

// InjectGrammarDefect breaks one grammar position.
func InjectGrammarDefect(t *rapid.T, c *cfg.Config, label string) string {
	kind := rapid.SampledFrom([]string{"param-name", "service-name", "getter", "ctor", "tag", "field", "method", "meta-pkg", "decorator-tag"}).Draw(t, label+"-kind")
	switch kind {
	case "param-name":
		c.Params = append(c.Params, cfg.Param{Name: "bad name!", Val: cfg.Int(1)})
	case "service-name":
		c.Services = append(c.Services, cfg.Service{Name: "-bad", Ctor: cfg.P("fx/lib.NewObj")})
	case "getter":
		c.Services = append(c.Services, cfg.Service{Name: "zz-g", Ctor: cfg.P("fx/lib.NewObj"), Getter: cfg.P("MustNot")})
	case "ctor":
		c.Services = append(c.Services, cfg.Service{Name: "zz-c", Ctor: cfg.P("fx/lib.New Obj")})
	case "tag":
		c.Services = append(c.Services, cfg.Service{Name: "zz-t", Ctor: cfg.P("fx/lib.NewObj"), Tags: []cfg.Tag{{Name: "bad tag"}}})
	case "field":
		c.Services = append(c.Services, cfg.Service{Name: "zz-f", Ctor: cfg.P("fx/lib.NewObj"), Fields: []cfg.Field{{Name: "1x", Val: cfg.Int(1)}}})
	case "method":
		c.Services = append(c.Services, cfg.Service{Name: "zz-m", Ctor: cfg.P("fx/lib.NewObj"), Calls: []cfg.Call{{Method: "Do-It"}}})
	case "meta-pkg":
		c.Meta.Pkg = cfg.P("my pkg")
	case "decorator-tag":
		c.Decorators = append(c.Decorators, cfg.Decorator{Tag: "bad tag", Fn: "fx/lib.Decorate"})
	}
	return "grammar:" + kind
}
