package gen

import (
	"verifh/cfg"
	"verifh/ref"
)

// FixScopes removes `scope: shared` declarations that would violate the
// shared-on-contextual rule, so that the configuration stays acceptable.
func FixScopes(c *cfg.Config) {
	for iter := 0; iter < 10; iter++ {
		a := ref.Analyse(*c)
		if len(a.ScopeFacts) == 0 {
			return
		}
		for _, f := range a.ScopeFacts {
			if s := c.Service(f.A); s != nil {
				s.Scope = nil
			}
		}
	}
}
