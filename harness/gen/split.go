package gen

import (
	"fmt"

	"pgregory.net/rapid"

	"verifh/cfg"
)

// Split distributes c over n files in a way that respects the documented merge
// rules, so that merging the files in order yields c again: scalar attributes may
// be repeated with decoy values in earlier files (last wins), mapping entries go
// anywhere (later wins for repeated keys), only the last non-empty `arguments`
// counts, calls / tags / decorators are cut into contiguous segments in file order.
func Split(t *rapid.T, c cfg.Config, n int) []cfg.Config {
	if n <= 1 {
		return []cfg.Config{c.Clone()}
	}
	files := make([]cfg.Config, n)
	at := func(label string) int { return rapid.IntRange(0, n-1).Draw(t, label) }
	decoy := func(label string) bool { return rapid.IntRange(0, 3).Draw(t, label) == 0 }

	placeStr := func(label string, v *string, decoyVal string, set func(f *cfg.Config, v *string)) {
		if v == nil {
			return
		}
		i := at(label)
		set(&files[i], cfg.P(*v))
		if i > 0 && decoy(label+"-decoy") {
			set(&files[rapid.IntRange(0, i-1).Draw(t, label+"-decoyat")], cfg.P(decoyVal))
		}
	}
	placeBool := func(label string, v *bool, set func(f *cfg.Config, v *bool)) {
		if v == nil {
			return
		}
		i := at(label)
		set(&files[i], cfg.P(*v))
		if i > 0 && decoy(label+"-decoy") {
			set(&files[rapid.IntRange(0, i-1).Draw(t, label+"-decoyat")], cfg.P(!*v))
		}
	}
	placeStr("version", c.Version, "9.9.9", func(f *cfg.Config, v *string) { f.Version = v })
	placeStr("pkg", c.Meta.Pkg, "decoypkg", func(f *cfg.Config, v *string) { f.Meta.Pkg = v })
	placeStr("type", c.Meta.Type, "DecoyType", func(f *cfg.Config, v *string) { f.Meta.Type = v })
	placeStr("ctor", c.Meta.Ctor, "NewDecoy", func(f *cfg.Config, v *string) { f.Meta.Ctor = v })
	placeBool("dmg", c.Meta.DefaultMust, func(f *cfg.Config, v *bool) { f.Meta.DefaultMust = v })

	placeKV := func(label string, kvs []cfg.KV, decoyVal string, get func(f *cfg.Config) *[]cfg.KV) {
		for j, kv := range kvs {
			i := at(fmt.Sprintf("%s%d", label, j))
			l := get(&files[i])
			*l = append(*l, kv)
			if i > 0 && decoy(fmt.Sprintf("%s%d-decoy", label, j)) {
				d := get(&files[rapid.IntRange(0, i-1).Draw(t, fmt.Sprintf("%s%d-decoyat", label, j))])
				*d = append(*d, cfg.KV{K: kv.K, V: decoyVal})
			}
		}
	}
	placeKV("imp", c.Meta.Imports, "decoy/path", func(f *cfg.Config) *[]cfg.KV { return &f.Meta.Imports })
	placeKV("fn", c.Meta.Functions, "decoy.Func", func(f *cfg.Config) *[]cfg.KV { return &f.Meta.Functions })

	for j, p := range c.Params {
		i := at(fmt.Sprintf("param%d", j))
		files[i].Params = append(files[i].Params, p)
		if i > 0 && decoy(fmt.Sprintf("param%d-decoy", j)) {
			k := rapid.IntRange(0, i-1).Draw(t, fmt.Sprintf("param%d-decoyat", j))
			files[k].Params = append(files[k].Params, cfg.Param{Name: p.Name, Val: cfg.Str("decoy %%")})
		}
	}

	svcIn := func(i int, name string) *cfg.Service {
		if s := files[i].Service(name); s != nil {
			return s
		}
		files[i].Services = append(files[i].Services, cfg.Service{Name: name})
		return &files[i].Services[len(files[i].Services)-1]
	}
	for j, s := range c.Services {
		lbl := fmt.Sprintf("svc%d", j)
		whole := rapid.IntRange(0, 2).Draw(t, lbl+"-whole") == 0
		if whole {
			i := at(lbl)
			files[i].Services = append(files[i].Services, s.Clone())
			continue
		}
		ps := func(label string, v *string, decoyVal string, set func(x *cfg.Service, v *string)) {
			if v == nil {
				return
			}
			i := at(lbl + label)
			set(svcIn(i, s.Name), cfg.P(*v))
			if i > 0 && decoy(lbl+label+"-decoy") {
				set(svcIn(rapid.IntRange(0, i-1).Draw(t, lbl+label+"-decoyat"), s.Name), cfg.P(decoyVal))
			}
		}
		pb := func(label string, v *bool, set func(x *cfg.Service, v *bool)) {
			if v == nil {
				return
			}
			i := at(lbl + label)
			set(svcIn(i, s.Name), cfg.P(*v))
			if i > 0 && decoy(lbl+label+"-decoy") {
				set(svcIn(rapid.IntRange(0, i-1).Draw(t, lbl+label+"-decoyat"), s.Name), cfg.P(!*v))
			}
		}
		ps("getter", s.Getter, "GetDecoy"+fmt.Sprint(j), func(x *cfg.Service, v *string) { x.Getter = v })
		pb("must", s.Must, func(x *cfg.Service, v *bool) { x.Must = v })
		ps("type", s.Type, "decoy.Type", func(x *cfg.Service, v *string) { x.Type = v })
		ps("value", s.Value, "decoy.Value", func(x *cfg.Service, v *string) { x.Value = v })
		ps("ctor", s.Ctor, "decoy.NewDecoy", func(x *cfg.Service, v *string) { x.Ctor = v })
		other := "shared"
		if s.Scope != nil && *s.Scope == "shared" {
			other = "non_shared"
		}
		ps("scope", s.Scope, other, func(x *cfg.Service, v *string) { x.Scope = v })
		if s.Todo != nil {
			// a decoy `todo` would change nothing that survives the merge, but keep it simple
			i := at(lbl + "todo")
			svcIn(i, s.Name).Todo = cfg.P(*s.Todo)
		}
		if len(s.Args) > 0 {
			i := at(lbl + "args")
			svcIn(i, s.Name).Args = append([]cfg.Val(nil), s.Args...)
			if i > 0 && decoy(lbl+"args-decoy") {
				svcIn(rapid.IntRange(0, i-1).Draw(t, lbl+"args-decoyat"), s.Name).Args = []cfg.Val{cfg.Str("decoy"), cfg.Int(0)}
			}
			if i < n-1 && decoy(lbl+"args-empty") {
				svcIn(rapid.IntRange(i+1, n-1).Draw(t, lbl+"args-emptyat"), s.Name).Args = []cfg.Val{}
			}
		} else if s.Args != nil {
			svcIn(at(lbl+"args0"), s.Name).Args = []cfg.Val{}
		}
		// calls and tags: contiguous segments in file order
		if len(s.Calls) > 0 {
			cut := cuts(t, len(s.Calls), n, lbl+"calls")
			for k, c := range s.Calls {
				x := svcIn(cut[k], s.Name)
				x.Calls = append(x.Calls, cfg.Call{Method: c.Method, Args: append([]cfg.Val(nil), c.Args...), Wither: c.Wither, Arity: c.Arity})
			}
		}
		if len(s.Tags) > 0 {
			cut := cuts(t, len(s.Tags), n, lbl+"tags")
			for k, tg := range s.Tags {
				x := svcIn(cut[k], s.Name)
				x.Tags = append(x.Tags, tg)
			}
		}
		for k, f := range s.Fields {
			i := at(fmt.Sprintf("%sfield%d", lbl, k))
			x := svcIn(i, s.Name)
			x.Fields = append(x.Fields, f)
			if i > 0 && decoy(fmt.Sprintf("%sfield%d-decoy", lbl, k)) {
				y := svcIn(rapid.IntRange(0, i-1).Draw(t, fmt.Sprintf("%sfield%d-decoyat", lbl, k)), s.Name)
				y.Fields = append(y.Fields, cfg.Field{Name: f.Name, Val: cfg.Str("decoy")})
			}
		}
		// make sure the service key exists somewhere even if it has no attribute at all
		found := false
		for i := range files {
			if files[i].Service(s.Name) != nil {
				found = true
			}
		}
		if !found {
			svcIn(at(lbl+"empty"), s.Name)
		}
	}
	if len(c.Decorators) > 0 {
		cut := cuts(t, len(c.Decorators), n, "decs")
		for k, d := range c.Decorators {
			files[cut[k]].Decorators = append(files[cut[k]].Decorators, cfg.Decorator{Tag: d.Tag, Fn: d.Fn, Args: append([]cfg.Val(nil), d.Args...)})
		}
	}
	return files
}

// cuts assigns k items to n files monotonically (contiguous segments in file order).
func cuts(t *rapid.T, k, n int, label string) []int {
	r := make([]int, k)
	cur := 0
	for i := 0; i < k; i++ {
		cur = rapid.IntRange(cur, n-1).Draw(t, fmt.Sprintf("%s-cut%d", label, i))
		r[i] = cur
	}
	return r
}
