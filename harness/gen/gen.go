// Package gen holds the rapid generators of configurations that are valid by
// construction over the fixture universe, and the defect injectors.
package gen

import (
	"fmt"
	"math"
	"sort"
	"strings"

	"pgregory.net/rapid"

	"verifh/cfg"
	"verifh/fx"
	"verifh/ref"
)

// Opts switches generator features.
type Opts struct {
	MaxServices   int
	MaxParams     int
	Scopes        bool
	Tags          bool
	Decorators    bool
	Calls         bool
	Fields        bool
	Getters       bool
	NonFinite     bool
	Todo          bool
	FailCtor      bool
	Funcs         bool
	Aliases       bool
	HostileAlias  bool // aliases that are prefixes of other aliases / paths / template imports
	TemplateAlias bool // aliases equal to a package the template imports (fmt, os, ...)
	MetaNames     bool
	PkgMain       bool // allow the default package (main)
	ValueKinds    bool // Num/List/Fn typed services
	CurrentPkg    bool // references into the container's own package
	Unicode       bool // exotic runes in string literals
	Behavioural   bool // restrict to shapes whose runtime behaviour the DI model predicts
	TagHeavy      bool // many shared tags, priority ties, several decorators per tag
	ScopeHeavy    bool // most services declare a scope
	AliasHeavy    bool // many aliases over confusable paths; alias spellings preferred
	Stdlib        bool // services built by standard-library constructors (import paths sorting before / after the template's own imports); ignored when Behavioural
}

func All() Opts {
	return Opts{MaxServices: 6, MaxParams: 5, Scopes: true, Tags: true, Decorators: true, Calls: true, Fields: true,
		Getters: true, NonFinite: true, Todo: true, FailCtor: true, Funcs: true, Aliases: true, HostileAlias: true,
		MetaNames: true, ValueKinds: true, CurrentPkg: true, Unicode: true, TemplateAlias: true, Stdlib: true}
}

// Labels collects feature labels of a generated configuration.
type Labels map[string]bool

func (l Labels) Add(s string) { l[s] = true }
func (l Labels) List() []string {
	r := make([]string, 0, len(l))
	for k := range l {
		r = append(r, k)
	}
	sort.Strings(r)
	return r
}

// identifier pools (exclude Go keywords, predeclared names, and the fixture catalog)
var (
	// (one name of each kind is longer than the 60 columns of the step table)
	pkgNames   = []string{"app", "di", "wiring", "gen_1", "Pkg2", "a_package_name_that_is_far_longer_than_the_sixty_columns_of_the_step_table"}
	typeNames  = []string{"Gontainer", "Box", "container_t", "C9", "AppContainer", "AContainerTypeNameThatIsFarLongerThanTheSixtyColumnsOfTheStepTable01"}
	ctorNames  = []string{"NewGontainer", "New", "Build", "make_it", "NewBox2", "NewContainerWithANameThatIsFarLongerThanTheSixtyColumnsOfTheStepTable"}
	getterPool = []string{"GetA", "GetB", "GetC", "Db", "Logger_1", "X", "getLower", "Get9", "GetInContextual", "MusT", "Roots", "GetMust", "GetSomethingWithANameThatIsFarLongerThanTheSixtyColumnsOfTheStepTable"}
	yamlNames  = []string{"a", "b1", "svc", "my.svc", "my-svc", "my_svc", "A", "x.y-z_0", "db", "log", "q9", "S.T", "long-name-with.many_parts9", "a-service-or-parameter-name.that_is_far_longer_than_the_sixty_columns.of-the-step-table"}
	tagNames   = []string{"t", "tag1", "http.handler", "my-tag", "T_2", "x"}
	fnNames    = []string{"echo", "count", "fail", "two", "Fn_9", "e"}
	envNames   = []string{"VERIF_SET", "VERIF_UNSET", "VERIF_NUM", "VERIF_NAN"}
)

// G carries the state of one generation.
type G struct {
	T       *rapid.T
	O       Opts
	L       Labels
	C       cfg.Config
	Aliases []cfg.KV
	pkgs    []string // fixture packages in play (import paths)
	funcs   []string // registered user function names
	funcSym map[string]string
	names   map[string]bool
}

// draw picks an index in [0,n) uniformly. rapid's integer generators are biased towards small values, which
// would over-represent the first options and make every "chance" far more likely than stated, so the value is
// assembled from unbiased bits (still drawn through rapid: cases shrink and replay; all-zero bits = first option).
func (g *G) draw(n int, label string) int {
	if n <= 1 {
		return 0
	}
	bits := 0
	for (1 << bits) < n {
		bits++
	}
	v := 0
	for try := 0; try < 4; try++ {
		v = 0
		for b := 0; b < bits; b++ {
			if rapid.Bool().Draw(g.T, label) {
				v |= 1 << b
			}
		}
		if v < n {
			return v
		}
	}
	return v % n
}
func (g *G) flip(label string) bool { return rapid.Bool().Draw(g.T, label) }
func (g *G) chance(pct int, label string) bool {
	return g.draw(100, label) < pct
}

func pickStr(g *G, pool []string, label string) string {
	return pool[g.draw(len(pool), label)]
}

func pickInt(g *G, pool []int, label string) int {
	return pool[g.draw(len(pool), label)]
}

func (g *G) freshName(pool []string, label string) string {
	for i := 0; i < 50; i++ {
		n := pickStr(g, pool, label)
		if !g.names[label+":"+n] {
			g.names[label+":"+n] = true
			return n
		}
	}
	// pool exhausted: derive
	for i := 0; ; i++ {
		n := fmt.Sprintf("%s%d", pool[0], i)
		if !g.names[label+":"+n] {
			g.names[label+":"+n] = true
			return n
		}
	}
}

// ---------------------------------------------------------------------------
// package references

// importSpellings returns all ways of writing a reference to package path (""
// is the current package) under the alias table, as the text before ".Symbol".
// quotedOnly restricts to the spellings legal in front of a dotted value path.
func importSpellings(path string, aliases []cfg.KV, quotedOnly bool) []string {
	if path == "" {
		if quotedOnly {
			return []string{`"."`}
		}
		return []string{"", `"."`}
	}
	var r []string
	first := strings.SplitN(path, "/", 2)[0]
	aliasNames := map[string]bool{}
	for _, a := range aliases {
		aliasNames[a.K] = true
	}
	add := func(s string) {
		if !quotedOnly {
			r = append(r, s)
		}
		r = append(r, `"`+s+`"`)
	}
	if !aliasNames[first] {
		add(path)
	}
	for _, a := range aliases {
		if a.V == path {
			add(a.K)
		} else if strings.HasPrefix(path, a.V+"/") {
			add(a.K + "/" + path[len(a.V)+1:])
		}
	}
	return r
}

// ResolveImport is the generator's own view of what a spelled import denotes (used
// only to keep generated configurations self-consistent; the oracle is ref.Alias).
func (g *G) spell(path string, quotedOnly bool, label string) string {
	sp := importSpellings(path, g.Aliases, quotedOnly)
	if len(sp) == 0 {
		panic("no spelling for " + path)
	}
	if g.O.AliasHeavy && path != "" && g.chance(65, label+"-prefalias") {
		var al []string
		for _, x := range sp {
			if !strings.HasPrefix(strings.Trim(x, `"`), "fx/") {
				al = append(al, x)
			}
		}
		if len(al) > 0 {
			sp = al
		}
	}
	s := sp[g.draw(len(sp), label)]
	switch {
	case path == "" && s == "":
		g.L.Add("import:unqualified")
	case s == `"."`:
		g.L.Add("import:dot")
	case strings.HasPrefix(s, `"`):
		g.L.Add("import:quoted")
	case strings.Contains(s, "/") && !strings.HasPrefix(s, "fx/"):
		g.L.Add("import:alias+subpath")
	case strings.HasPrefix(s, "fx/"):
		g.L.Add("import:fullpath")
	default:
		g.L.Add("import:alias")
	}
	return s
}

func join(imp, sym string) string {
	if imp == "" {
		return sym
	}
	return imp + "." + sym
}

func (g *G) pkg(label string) string {
	if g.O.CurrentPkg && g.chance(20, label+"-cur") {
		return ""
	}
	return g.pkgs[g.draw(len(g.pkgs), label)]
}

// ---------------------------------------------------------------------------
// meta

var aliasPoolPlain = []string{"l", "lb", "lib", "libx", "sub", "my.lib", "my-lib", "p_1", "root", "A"}
var aliasPoolHostile = []string{"f", "fm", "o", "e", "er", "c", "con", "r", "re", "s", "st", "g", "gi", "git", "fx.x", "li", "fxx"}
var aliasPoolTemplate = []string{"fmt", "os", "errors", "context", "reflect", "strconv", "github.com"}

func (g *G) genMeta() {
	m := &g.C.Meta
	if g.O.MetaNames {
		if g.chance(70, "pkg?") || !g.O.PkgMain {
			m.Pkg = cfg.P(pickStr(g, pkgNames, "pkg"))
		}
		if g.chance(50, "type?") {
			m.Type = cfg.P(pickStr(g, typeNames, "type"))
		}
		if g.chance(50, "ctor?") {
			m.Ctor = cfg.P(pickStr(g, ctorNames, "ctor"))
		}
	} else if !g.O.PkgMain {
		m.Pkg = cfg.P("app")
	}
	if g.O.Getters && g.chance(40, "dmg?") {
		m.DefaultMust = cfg.P(g.flip("dmg"))
		g.L.Add(fmt.Sprintf("default_must_getter:%v", *m.DefaultMust))
	}
	// packages in play
	n := 1 + g.draw(3, "npkgs")
	if g.O.AliasHeavy {
		n = 3 + g.draw(3, "npkgs-heavy")
	}
	perm := rapid.Permutation(fx.Libs).Draw(g.T, "pkgs")
	for i := 0; i < n && i < len(perm); i++ {
		g.pkgs = append(g.pkgs, perm[i].Path)
	}
	// aliases
	if g.O.Aliases {
		na := g.draw(4, "naliases")
		if g.O.AliasHeavy {
			na = 2 + g.draw(5, "naliases-heavy")
		}
		used := map[string]bool{}
		for i := 0; i < na; i++ {
			pool := aliasPoolPlain
			hostilePct := 40
			if g.O.AliasHeavy {
				hostilePct = 60
			}
			if g.O.HostileAlias && g.chance(hostilePct, "hostile?") {
				pool = aliasPoolHostile
				g.L.Add("alias:hostile-prefix")
			}
			if g.O.TemplateAlias && g.chance(25, "tplalias?") {
				pool = aliasPoolTemplate
				g.L.Add("alias:template-import")
			}
			name := pickStr(g, pool, "alias")
			if g.O.AliasHeavy && g.chance(4, "alias-fx") {
				name = "fx" // an alias equal to the first segment of every fixture path
			}
			if used[name] {
				continue
			}
			used[name] = true
			target := g.pkgs[g.draw(len(g.pkgs), "aliastarget")]
			if name == "fx" {
				// fx/lib then denotes fx/a/lib (which exists); literal full paths are no longer spellable
				g.Aliases = append(g.Aliases, cfg.KV{K: "fx", V: "fx/a"})
				hasALib := false
				for _, p := range g.pkgs {
					hasALib = hasALib || p == "fx/a/lib"
				}
				if !hasALib {
					g.pkgs = append(g.pkgs, "fx/a/lib")
				}
				g.L.Add("alias:first-segment-of-all-paths")
				continue
			}
			if g.chance(25, "prefixalias?") {
				// alias of a proper prefix of the path
				parts := strings.Split(target, "/")
				if len(parts) > 1 {
					target = strings.Join(parts[:1+g.draw(len(parts)-1, "cut")], "/")
					g.L.Add("alias:path-prefix")
				}
			}
			g.Aliases = append(g.Aliases, cfg.KV{K: name, V: target})
		}
		// every package in play must stay spellable (an alias equal to the first path segment hides literal paths)
		for i, p := range g.pkgs {
			if len(importSpellings(p, g.Aliases, false)) == 0 {
				g.Aliases = append(g.Aliases, cfg.KV{K: fmt.Sprintf("px%d", i), V: p})
			}
		}
		m.Imports = append([]cfg.KV(nil), g.Aliases...)
		if len(g.Aliases) > 0 {
			g.L.Add("aliases")
		}
	}
	if g.O.Funcs {
		nf := g.draw(3, "nfuncs")
		for i := 0; i < nf; i++ {
			name := g.freshName(fnNames, "fn")
			sym := []string{"Echo", "Count", "Two", "Fail"}[g.draw(4, "fnsym")]
			p := g.pkg("fnpkg")
			spelled := join(g.spell(p, false, "fnimp"), sym)
			m.Functions = append(m.Functions, cfg.KV{K: name, V: spelled})
			g.funcs = append(g.funcs, name)
			g.funcSym[name] = sym
			g.L.Add("function:" + sym)
		}
	}
}

// ---------------------------------------------------------------------------
// literals and patterns

// boundaryTexts look like the special argument forms but are plain strings by the documented rules.
// formatterTexts: string contents that a source-level post-processing of the generated file (blank-line squeezing,
// comment handling, raw-string emission) could damage.
var formatterTexts = []string{"a\n\n\tb", "x\n\n\n\ty\n", "\n\n\t", "all: build\n\n\tgo build ./...\n", "}\n\n\tfunc f() {", "*/ x /*", "// c\n\n\t// d", "`a`\n\n\tb", "\r\n\r\n\tz", "\t\n\n \n\t", "x\n\n", "a\nb\n\n\n", "k: v\n"}

var boundaryTexts = []string{"!value", "!tagged", "!valu", "!valueX", "!taggedx y", "!", "$gontaine", "$gontainerX", " $gontainer", " @a", "!Value x", "! value x", "x@a", "x!tagged t"}

func (g *G) genText(label string) string {
	if g.chance(6, label+"-boundary") {
		g.L.Add("text:special-form-boundary")
		return pickStr(g, boundaryTexts, label+"-bt")
	}
	if g.O.Unicode && g.chance(5, label+"-fmt") {
		g.L.Add("text:formatter-sensitive")
		return pickStr(g, formatterTexts, label+"-ft")
	}
	if g.O.Unicode && g.chance(30, label+"-uni") {
		g.L.Add("text:unicode")
		return rapid.StringOfN(rapid.RuneFrom([]rune{'a', 'Z', '0', ' ', '"', '\'', '\\', '\n', '\t', 'é', '世', '😀', '$', '@', '!', '{', '}', '`', ':', '#', '-', '.', '(', ')', ' ', '\x01'}), 1, 8, -1).Draw(g.T, label)
	}
	return rapid.StringMatching(`[a-zA-Z0-9 _:/.-]{1,8}`).Draw(g.T, label)
}

// plainText makes sure a string meant as a pattern is not classified as one of the
// special argument forms (@service, !value, !tagged, $gontainer).
func plainText(s string) string {
	if k, _, _ := ref.ClassifyArg(s); k != ref.ArgPattern {
		return "_" + s
	}
	return s
}

func goStringLit(s string) string { return fmt.Sprintf("%q", s) }

// genFuncCall returns `%fn(args)%` for a registered function.
func (g *G) genFuncCall(label string) string {
	opts := []string{"env", "envInt"}
	if g.O.Todo {
		opts = append(opts, "todo")
	}
	opts = append(opts, g.funcs...)
	fn := opts[g.draw(len(opts), label)]
	switch fn {
	case "env":
		g.L.Add("fn:env")
		name := pickStr(g, envNames, label+"-env")
		switch g.draw(3, label+"-def") {
		case 0:
			return fmt.Sprintf(`%%env(%s, %s)%%`, goStringLit(name), g.fnArg(g.fnStringLit(label+"-d"), "string", label+"-d"))
		case 1:
			if g.O.Behavioural {
				return fmt.Sprintf(`%%env(%s)%%`, goStringLit(name)) // fails when the variable is unset
			}
		}
		return fmt.Sprintf(`%%env(%s, "dflt")%%`, goStringLit(name))
	case "envInt":
		g.L.Add("fn:envInt")
		name := "VERIF_UNSET"
		if g.O.Behavioural {
			name = pickStr(g, envNames, label+"-envint")
		}
		if g.O.Behavioural && g.draw(3, label+"-nodef") == 0 {
			return fmt.Sprintf(`%%envInt(%s)%%`, goStringLit(name))
		}
		return fmt.Sprintf(`%%envInt(%s, %s)%%`, goStringLit(name), g.fnArg(fmt.Sprint(rapid.IntRange(-5, 5).Draw(g.T, label+"-i")), "int", label+"-i"))
	case "todo":
		g.L.Add("fn:todo")
		if g.flip(label + "-msg") {
			if g.chance(40, label+"-msgtext") {
				if g.chance(30, label+"-msg2") {
					// further arguments do not belong to the message
					return fmt.Sprintf(`%%todo(%s, %s)%%`, g.fnArg(g.fnStringLit(label+"-m"), "string", label+"-m"), g.fnStringLit(label+"-m2"))
				}
				return fmt.Sprintf(`%%todo(%s)%%`, g.fnArg(g.fnStringLit(label+"-m"), "string", label+"-m"))
			}
			return `%todo("not yet")%`
		}
		return `%todo()%`
	}
	g.L.Add("fn:user")
	switch g.funcSym[fn] {
	case "Count":
		return fmt.Sprintf(`%%%s(%s, %d)%%`, fn, goStringLit("k"+fn), rapid.IntRange(0, 9).Draw(g.T, label+"-c"))
	case "Two":
		return fmt.Sprintf(`%%%s(%d)%%`, fn, rapid.IntRange(0, 9).Draw(g.T, label+"-c"))
	case "Fail":
		return fmt.Sprintf(`%%%s()%%`, fn)
	}
	switch g.draw(4, label+"-echo") {
	case 0:
		return fmt.Sprintf(`%%%s(%s)%%`, fn, g.fnArg(fmt.Sprint(rapid.IntRange(-9, 9).Draw(g.T, label+"-c")), "int", label+"-c"))
	case 1:
		return fmt.Sprintf(`%%%s(%s)%%`, fn, g.fnArg("true", "bool", label+"-b"))
	case 2:
		return fmt.Sprintf(`%%%s(%s)%%`, fn, g.fnArg("1.5", "float", label+"-f"))
	}
	return fmt.Sprintf(`%%%s(%s)%%`, fn, g.fnArg(g.fnStringLit(label+"-s"), "string", label+"-s"))
}

// fnArgTexts: string contents that a careless re-tokenisation of a function call would damage.
var fnArgTexts = []string{"a,b", "a ,b", "a,,b", "1,000", "x)", "(x", "))", ", ", "a, b", ",", "(", ")", "a)b(", "f(x), g(y)", "\"", "\\", "'", "a\"b", "tab\there", " lead", "trail "}

// genTextNoPercent: text for use inside a function argument literal (a `%` would end the token).
func (g *G) genTextNoPercent(label string) string {
	if g.chance(50, label+"-hostile") {
		g.L.Add("fnarg:separator-or-bracket-inside-string")
		return pickStr(g, fnArgTexts, label+"-h")
	}
	return strings.ReplaceAll(rapid.StringMatching(`[a-zA-Z0-9 _:/.,()'-]{0,6}`).Draw(g.T, label), "%", "")
}

// fnStringLit returns a Go string literal for a function argument; a few of them spell a percent sign with an escape
// (a literal % cannot appear inside a token), so that the evaluated text contains format verbs.
func (g *G) fnStringLit(label string) string {
	if g.chance(8, label+"-pct") {
		g.L.Add("fnarg:escaped-percent-in-string")
		return pickStr(g, []string{`"100\x25 sure"`, `"\x25d \x25s"`, `"50\u0025"`, `"\x25!v(MISSING)"`, `"a\tb\x25"`}, label+"-p")
	}
	if g.chance(6, label+"-empty") {
		g.L.Add("fnarg:empty-string")
		return `""`
	}
	return goStringLit(g.genTextNoPercent(label))
}

// fnArg optionally dresses a Go literal up as another Go expression with the same value: parentheses or a
// conversion to its own type (documented: the text between the parentheses is Go code).
func (g *G) fnArg(lit, kind, label string) string {
	if !g.chance(20, label+"-expr?") {
		return lit
	}
	g.L.Add("fnarg:go-expression")
	switch g.draw(3, label+"-expr") {
	case 0:
		return "(" + lit + ")"
	case 1:
		return "((" + lit + "))"
	}
	switch kind {
	case "int":
		return "int(" + lit + ")"
	case "string":
		return "string(" + lit + ")"
	case "float":
		return "float64(" + lit + ")"
	}
	return "(" + lit + ")"
}

// genPattern returns a valid pattern string; refs lists usable parameter names.
func (g *G) genPattern(refs []string, label string) string {
	n := 1 + g.draw(3, label+"-n")
	var sb strings.Builder
	for i := 0; i < n; i++ {
		switch g.draw(5, fmt.Sprintf("%s-k%d", label, i)) {
		case 0:
			sb.WriteString("%%")
			g.L.Add("pattern:percent")
		case 1:
			if len(refs) > 0 {
				sb.WriteString("%" + refs[g.draw(len(refs), label+"-ref")] + "%")
				g.L.Add("pattern:ref")
				continue
			}
			sb.WriteString(strings.ReplaceAll(g.genText(label+"-t"), "%", "%%"))
		case 2:
			if g.O.Funcs || true {
				sb.WriteString(g.genFuncCall(label + "-fn"))
				g.L.Add("pattern:func")
				continue
			}
		default:
			sb.WriteString(strings.ReplaceAll(g.genText(label+"-t"), "%", "%%"))
			g.L.Add("pattern:text")
		}
	}
	if n > 1 {
		g.L.Add("pattern:multi")
	}
	return plainText(sb.String())
}

func (g *G) genLiteral(label string) cfg.Val {
	switch g.draw(8, label) {
	case 0:
		g.L.Add("lit:int")
		if g.flip(label + "-alike") {
			// a small pool shared with the float and string literals: values of different types that print alike
			return cfg.Int(rapid.SampledFrom([]int64{0, 1, 3, -2, 100}).Draw(g.T, label+"-ia"))
		}
		return cfg.Int(int64(rapid.IntRange(-1000, 1000).Draw(g.T, label+"-i")))
	case 1:
		g.L.Add("lit:bigint")
		return cfg.Int(rapid.SampledFrom([]int64{9223372036854775807, -9223372036854775808, 2147483648, -2147483649}).Draw(g.T, label+"-I"))
	case 2:
		g.L.Add("lit:uint64")
		return cfg.Uint(rapid.SampledFrom([]uint64{9223372036854775808, 18446744073709551615}).Draw(g.T, label+"-u"))
	case 3:
		if g.O.NonFinite && g.chance(35, label+"-nf") {
			g.L.Add("lit:nonfinite")
			return cfg.Val{K: "float", FS: rapid.SampledFrom([]string{".inf", "-.inf", ".nan"}).Draw(g.T, label+"-fs")}
		}
		if g.chance(30, label+"-binade") {
			// a magnitude from a drawn binade: half of the draws from the binades next to a representation boundary (53-bit
			// mantissa, 64-bit integers, the 1e21 threshold of positional notation, float32, the 512 bits of an untyped Go
			// integer constant, the largest exponent), the others from any binade of float64
			g.L.Add("lit:float-binade")
			k := -1074 + g.draw(2098, label+"-exp")
			if g.flip(label + "-edge") {
				k = pickInt(g, []int{52, 53, 62, 63, 64, 69, 70, 127, 128, 510, 511, 512, 513, 1022, 1023, -1022, -1023}, label+"-edgeexp")
			}
			f := math.Ldexp([]float64{1, 1.5, 1.9999999999999998}[g.draw(3, label+"-mant")], k)
			if g.flip(label + "-neg") {
				f = -f
			}
			return cfg.Float(f)
		}
		g.L.Add("lit:float")
		return cfg.Float(rapid.SampledFrom([]float64{0, 1.5, -2.25, 1e21, 1e-7, 3.0, 123456789.125, 1.0, -2.0, 100.0,
			// the extremes of float64 and a value with 17 significant digits and a large exponent
			1e300, -1e155, 1.7976931348623157e308, 5e-324, 1e-300, 6.0221407612345678e23, 6.62607015e-34}).Draw(g.T, label+"-f"))
	case 4:
		g.L.Add("lit:bool")
		return cfg.Bool(g.flip(label + "-b"))
	case 5:
		g.L.Add("lit:null")
		return cfg.Null()
	}
	g.L.Add("lit:string")
	if g.chance(10, label+"-salike") {
		return cfg.Str(rapid.SampledFrom([]string{"0", "1", "3", "-2", "100", "1.5", "true", "false", "null", "~", "nil", ""}).Draw(g.T, label+"-sa"))
	}
	return cfg.Str(plainText(strings.ReplaceAll(g.genText(label+"-s"), "%", "%%")))
}

func (g *G) genParams() {
	n := g.draw(g.O.MaxParams+1, "nparams")
	var names []string
	for i := 0; i < n; i++ {
		name := g.freshName(yamlNames, "param")
		var v cfg.Val
		if g.chance(45, "plit?") {
			v = g.genLiteral(fmt.Sprintf("p%d", i))
		} else {
			v = cfg.Str(g.genPattern(names, fmt.Sprintf("p%d", i)))
		}
		g.C.Params = append(g.C.Params, cfg.Param{Name: name, Val: v})
		names = append(names, name)
	}
}

func (g *G) paramNames() []string {
	var r []string
	for _, p := range g.C.Params {
		r = append(r, p.Name)
	}
	return r
}

// ---------------------------------------------------------------------------
// services

type svcInfo struct {
	kind string // Obj (pointer), ObjV (struct value), Val, ValP, Num, List, Fn, Todo, Fail
	pkg  string
}

// creation describes how to create a service of a kind.
func (g *G) genCreation(s *cfg.Service, info *svcInfo, label string) {
	p := g.pkg(label + "-pkg")
	info.pkg = p
	type opt struct {
		kind string
		f    func()
	}
	ctor := func(sym string) func() {
		return func() {
			s.Ctor = cfg.P(join(g.spell(p, false, label+"-imp"), sym))
			g.L.Add("create:constructor")
		}
	}
	value := func(expr string, ptr string) func() {
		return func() {
			dotted := strings.Contains(expr, ".")
			s.Value = cfg.P(ptr + join(g.spell(p, dotted, label+"-imp"), expr))
			g.L.Add("create:value")
			if strings.HasSuffix(expr, "{}") {
				g.L.Add("value:struct-literal")
			}
			if dotted {
				g.L.Add("value:field-path")
			}
			if ptr != "" {
				g.L.Add("value:address-of")
			}
		}
	}
	typeOnly := func(t string) func() {
		return func() {
			s.Type = cfg.P(join(g.spell(p, false, label+"-imp"), t))
			g.L.Add("create:type-only")
		}
	}
	opts := []opt{
		{"Obj", ctor("NewObj")}, {"Obj", ctor("NewObj")}, {"Obj", ctor("NewObjE")}, {"Val", ctor("NewVal")},
		{"Obj", value("GlobalObj", "")}, {"Val", value("GlobalVal", "")}, {"ValP", value("GlobalVal", "&")},
		{"Obj", value("Holder.Field", "")}, {"Obj", value("Holder.Inner.Leaf", "")},
		{"ObjV", value("Obj{}", "")}, {"Obj", value("Obj{}", "&")}, {"Val", value("Val{}", "")}, {"ValP", value("Val{}", "&")},
		{"ObjV", typeOnly("Obj")}, {"Val", typeOnly("Val")},
	}
	if g.O.ValueKinds {
		opts = append(opts, opt{"Num", value("NumVal", "")}, opt{"List", value("ListVal", "")}, opt{"Fn", value("FnVal", "")},
			opt{"Num", typeOnly("Num")})
	}
	if g.O.FailCtor {
		opts = append(opts, opt{"Fail", ctor("NewFail")})
	}
	o := opts[g.draw(len(opts), label+"-how")]
	info.kind = o.kind
	o.f()
}

// typeFor returns the type strings compatible with a service kind (without import).
func typesFor(kind string) []string {
	switch kind {
	case "Obj", "Fail":
		return []string{"*Obj", "Iface"}
	case "ObjV":
		return []string{"Obj", "Iface"}
	case "Val":
		return []string{"Val", "Iface"}
	case "ValP":
		return []string{"*Val", "Iface"}
	case "Num":
		return []string{"Num"}
	case "List":
		return []string{"List"}
	case "Fn":
		return []string{"Fn"}
	}
	return nil
}

func (g *G) genArg(svcs []string, openTags []string, label string) cfg.Val {
	k := g.draw(9, label)
	switch {
	case k == 0 && len(svcs) > 0:
		g.L.Add("arg:service")
		return cfg.Str("@" + svcs[g.draw(len(svcs), label+"-svc")])
	case k == 1 && g.O.Tags && len(openTags) > 0:
		g.L.Add("arg:tagged")
		sep := " "
		if g.chance(15, label+"-ws") {
			// the keyword is followed by white space in the sense of \s: blanks, tabs, line breaks, form feeds
			sep = rapid.SampledFrom([]string{"  ", "\t", " \t ", "\n", "\r\n", "\n    ", "\f", " \n", "\t\n"}).Draw(g.T, label+"-sep")
			g.L.Add("arg:keyword-followed-by-unusual-whitespace")
		}
		return cfg.Str("!tagged" + sep + openTags[g.draw(len(openTags), label+"-tag")])
	case k == 2:
		g.L.Add("arg:value")
		p := g.pkg(label + "-vpkg")
		exprs := []string{"GlobalObj", "GlobalVal", "Holder.Field", "Obj{}", "Val{}", "NumVal", "ID", "Holder.Inner.Leaf"}
		e := exprs[g.draw(len(exprs), label+"-expr")]
		ptr := ""
		if (e == "Obj{}" || e == "Val{}" || e == "GlobalVal") && g.flip(label+"-amp") {
			ptr = "&"
		}
		vsep := " "
		if g.chance(15, label+"-vws") {
			vsep = rapid.SampledFrom([]string{"  ", "\t", "\n", "\r\n", "\n  ", "\f"}).Draw(g.T, label+"-vsep")
			g.L.Add("arg:keyword-followed-by-unusual-whitespace")
		}
		return cfg.Str("!value" + vsep + ptr + join(g.spell(p, strings.Contains(e, "."), label+"-vimp"), e))
	case k == 3:
		g.L.Add("arg:gontainer")
		return cfg.Str("$gontainer")
	case k == 4 || k == 5:
		g.L.Add("arg:pattern")
		return cfg.Str(g.genPattern(g.paramNames(), label+"-pat"))
	}
	g.L.Add("arg:literal")
	return g.genLiteral(label + "-lit")
}

func (g *G) genArgs(max int, svcs, openTags []string, label string) []cfg.Val {
	n := g.draw(max+1, label+"-n")
	if g.chance(4, label+"-many") {
		// more than ten positions: decimal position numbers no longer sort like numbers
		n = 11 + g.draw(3, label+"-manyn")
		g.L.Add("args:more-than-ten")
	}
	var r []cfg.Val
	for i := 0; i < n; i++ {
		r = append(r, g.genArg(svcs, openTags, fmt.Sprintf("%s%d", label, i)))
	}
	return r
}

func (g *G) genServices() {
	n := 1 + g.draw(g.O.MaxServices, "nservices")
	var names []string             // non-failing earlier services usable as @refs
	carriers := map[string][]int{} // tag -> indices of carriers
	closed := map[string]bool{}    // tags already consumed: later services must not carry them
	usedGetters := map[string]bool{}
	var infos []svcInfo
	for i := 0; i < n; i++ {
		lbl := fmt.Sprintf("s%d", i)
		s := cfg.Service{Name: g.freshName(yamlNames, "svc")}
		var info svcInfo
		if g.O.Todo && g.chance(8, lbl+"-todo") {
			s.Todo = cfg.P(true)
			info.kind = "Todo"
			g.L.Add("todo-service")
			g.C.Services = append(g.C.Services, s)
			infos = append(infos, info)
			if !g.O.Behavioural {
				names = append(names, s.Name)
			}
			continue
		}
		g.genCreation(&s, &info, lbl)
		var openTags []string
		for t := range carriers {
			openTags = append(openTags, t)
		}
		sort.Strings(openTags)
		if s.Ctor != nil {
			s.Args = g.genArgs(3, names, openTags, lbl+"-arg")
		}
		isStruct := info.kind == "Obj" || info.kind == "ObjV" || info.kind == "Val" || info.kind == "ValP"
		if g.O.Behavioural && s.Value != nil && !strings.HasSuffix(*s.Value, "{}") && (info.kind == "Obj" || info.kind == "ValP") {
			// a package-level pointer is shared by every container of the process: mutating
			// it through fields or calls would make runs depend on each other
			isStruct = false
		}
		if g.O.Fields && isStruct && g.chance(40, lbl+"-fields?") {
			fnames := rapid.Permutation([]string{"FieldA", "FieldB", "fieldC"}).Draw(g.T, lbl+"-fperm")
			k := 1 + g.draw(3, lbl+"-nf")
			for j := 0; j < k; j++ {
				s.Fields = append(s.Fields, cfg.Field{Name: fnames[j], Val: g.genArg(names, openTags, fmt.Sprintf("%s-f%d", lbl, j))})
				if fnames[j] == "fieldC" {
					g.L.Add("field:unexported")
				}
			}
			g.L.Add("fields")
		}
		if g.O.Calls && isStruct && g.chance(45, lbl+"-calls?") {
			k := 1 + g.draw(3, lbl+"-nc")
			for j := 0; j < k; j++ {
				c := cfg.Call{}
				// a wither turns a struct-valued Obj into *Obj and a *Val into Val: not combined with a fixed `type`
				witherOK := !((info.kind == "ObjV" || info.kind == "ValP") && s.Type != nil)
				if witherOK && g.chance(35, fmt.Sprintf("%s-w%d", lbl, j)) {
					c.Wither = true
					c.Method = []string{"With1", "With2"}[g.draw(2, lbl+"-wm")]
					g.L.Add("wither")
				} else {
					c.Method = []string{"Call1", "Call2"}[g.draw(2, lbl+"-cm")]
					c.Arity = 1 + g.draw(3, lbl+"-ar")
					g.L.Add("call")
				}
				c.Args = g.genArgs(2, names, openTags, fmt.Sprintf("%s-c%d-", lbl, j))
				s.Calls = append(s.Calls, c)
			}
		}
		for _, v := range s.AllArgs() {
			if v.IsStr() && strings.HasPrefix(v.S, "!tagged") {
				f := strings.Fields(v.S)
				closed[f[len(f)-1]] = true
			}
		}
		tagChance, tagPool := 45, tagNames
		if g.O.TagHeavy {
			tagChance, tagPool = 85, tagNames[:3]
		}
		if g.O.Tags && g.chance(tagChance, lbl+"-tags?") {
			k := 1 + g.draw(2, lbl+"-nt")
			seen := map[string]bool{}
			for j := 0; j < k; j++ {
				t := pickStr(g, tagPool, lbl+"-tag")
				if seen[t] || closed[t] {
					continue
				}
				seen[t] = true
				tag := cfg.Tag{Name: t}
				switch g.draw(4, lbl+"-prio") {
				case 1:
					tag.Prio = rapid.SampledFrom([]int{-2147483648, -1, 1, 5, 5, 2147483647, 100}).Draw(g.T, lbl+"-p")
					if g.O.TagHeavy {
						tag.Prio = rapid.SampledFrom([]int{-1, -1, 1, 1, 5, -2147483648}).Draw(g.T, lbl+"-pt")
					}
					g.L.Add("tag:priority")
				case 2:
					tag.ObjForm = true
					tag.NoPrio = g.flip(lbl + "-noprio")
					g.L.Add("tag:object-form")
				}
				s.Tags = append(s.Tags, tag)
				carriers[t] = append(carriers[t], i)
				g.L.Add("tags")
			}
		}
		scopeChance := 40
		if g.O.ScopeHeavy {
			scopeChance = 75
		}
		if g.O.Scopes && g.chance(scopeChance, lbl+"-scope?") {
			s.Scope = cfg.P([]string{"shared", "contextual", "non_shared"}[g.draw(3, lbl+"-scope")])
			g.L.Add("scope:" + *s.Scope)
		}
		if g.O.Getters && g.chance(55, lbl+"-getter?") {
			gt := pickStr(g, getterPool, lbl+"-getter")
			if !usedGetters[gt] {
				usedGetters[gt] = true
				s.Getter = cfg.P(gt)
				g.L.Add("getter")
				if g.chance(50, lbl+"-must?") {
					s.Must = cfg.P(g.flip(lbl + "-must"))
					g.L.Add(fmt.Sprintf("must_getter:%v", *s.Must))
				}
				ts := typesFor(info.kind)
				if info.kind == "ObjV" || info.kind == "ValP" {
					for _, cl := range s.Calls {
						if cl.Wither {
							ts = []string{"Iface"}
						}
					}
				}
				if len(ts) > 0 && (s.Type == nil) && g.chance(70, lbl+"-type?") {
					t := ts[g.draw(len(ts), lbl+"-type")]
					ptr := ""
					if strings.HasPrefix(t, "*") {
						ptr, t = "*", t[1:]
					}
					s.Type = cfg.P(ptr + join(g.spell(info.pkg, false, lbl+"-timp"), t))
					g.L.Add("getter-type:" + ptr + t)
				} else if s.Type != nil {
					g.L.Add("getter-type:value-kind")
				} else {
					g.L.Add("getter-type:none")
				}
			}
		} else if g.chance(5, lbl+"-mustfalse") {
			s.Must = cfg.P(false) // explicit false without getter is legal
		}
		if s.Getter == nil && s.Type == nil && s.Ctor != nil && g.chance(25, lbl+"-type-no-getter") {
			// a type without a getter is legal and unused by the emitted code (it only shows in the comment)
			tp := g.pkgs[g.draw(len(g.pkgs), lbl+"-tng-pkg")]
			s.Type = cfg.P(join(g.spell(tp, false, lbl+"-tng-imp"), pickStr(g, []string{"Iface", "Val", "Num"}, lbl+"-tng-t")))
			g.L.Add("type-without-getter")
		}
		g.C.Services = append(g.C.Services, s)
		infos = append(infos, info)
		if info.kind != "Fail" || !g.O.Behavioural {
			names = append(names, s.Name)
		}
	}
	// decorators: deps only on services that precede every carrier of the tag
	if g.O.Decorators && g.O.Tags {
		nd := g.draw(3, "ndec")
		if g.O.TagHeavy {
			nd = 1 + g.draw(4, "ndec-heavy")
		}
		for i := 0; i < nd; i++ {
			var tags []string
			for t := range carriers {
				tags = append(tags, t)
			}
			sort.Strings(tags)
			var tag string
			minCarrier := n
			if len(tags) > 0 && g.chance(85, "dectag?") {
				tag = tags[g.draw(len(tags), "dectag")]
				for _, c := range carriers[tag] {
					if c < minCarrier {
						minCarrier = c
					}
				}
				// value-kind services cannot be wrapped by Decorate consistently with their getter type
				ok := true
				for _, c := range carriers[tag] {
					k := infos[c].kind
					if k == "Num" || k == "List" || k == "Fn" || k == "ValP" || k == "ObjV" {
						ok = false
					}
				}
				if !ok {
					continue
				}
			} else {
				tag = pickStr(g, append([]string{"*"}, "unused-tag"), "dectag-free")
				minCarrier = 0
			}
			var early []string
			for j := 0; j < minCarrier && j < len(g.C.Services); j++ {
				if infos[j].kind != "Fail" || !g.O.Behavioural {
					if infos[j].kind != "Todo" || !g.O.Behavioural {
						early = append(early, g.C.Services[j].Name)
					}
				}
			}
			var earlyTags []string
			for t, cs := range carriers {
				all := true
				for _, c := range cs {
					if c >= minCarrier {
						all = false
					}
				}
				if all && t != tag {
					earlyTags = append(earlyTags, t)
				}
			}
			sort.Strings(earlyTags)
			p := g.pkg("decpkg")
			// a wrapper from another package is not convertible to the concrete getter type of the
			// wrapped service: such services get the interface type instead (or lose the tag)
			for _, ci := range carriers[tag] {
				sv := &g.C.Services[ci]
				if infos[ci].pkg == p || sv.Type == nil || strings.HasSuffix(*sv.Type, "Iface") {
					continue
				}
				if sv.Ctor == nil && sv.Value == nil {
					var keep []cfg.Tag
					for _, tg := range sv.Tags {
						if tg.Name != tag {
							keep = append(keep, tg)
						}
					}
					sv.Tags = keep
					continue
				}
				ts := strings.TrimPrefix(*sv.Type, "*")
				if i := strings.LastIndex(ts, "."); i >= 0 {
					ts = ts[:i+1] + "Iface"
				} else {
					ts = "Iface"
				}
				sv.Type = cfg.P(ts)
			}
			d := cfg.Decorator{Tag: tag, Fn: join(g.spell(p, false, "decimp"), "Decorate")}
			d.Args = g.genArgs(2, early, earlyTags, fmt.Sprintf("d%d-arg", i))
			g.C.Decorators = append(g.C.Decorators, d)
			g.L.Add("decorator")
		}
	}
}

// Valid draws a configuration that the documentation says must be accepted.
func Valid(t *rapid.T, o Opts) (cfg.Config, Labels) {
	g := &G{T: t, O: o, L: Labels{}, funcSym: map[string]string{}, names: map[string]bool{}}
	if o.MaxServices == 0 {
		g.O.MaxServices = 4
	}
	g.genMeta()
	g.genParams()
	g.genServices()
	g.genStdlib()
	FixScopes(&g.C)
	return g.C, g.L
}

// genStdlib adds services whose constructor lives in a standard-library package that is otherwise unused: its
// import is needed by the normal output only ("bytes" sorts before every import of the template, "unicode/utf8"
// after all of them), or - with a getter type - by both modes.
func (g *G) genStdlib() {
	if !g.O.Stdlib || g.O.Behavioural || !g.chance(15, "stdlib?") {
		return
	}
	for _, a := range g.Aliases {
		switch a.K {
		case "bytes", "strings", "unicode", "bufio", "os", "fmt", "errors":
			return
		}
	}
	g.L.Add("stdlib-constructor")
	if g.flip("stdlib-early") {
		s := cfg.Service{Name: "zz-buf", Ctor: cfg.P("bytes.NewBufferString"), Args: []cfg.Val{cfg.Str("x")}}
		if g.O.Getters && g.flip("stdlib-early-getter") {
			s.Getter, s.Type = cfg.P("GetZzBuf"), cfg.P("*bytes.Buffer")
			g.L.Add("stdlib-constructor:with-getter-type")
		}
		g.C.Services = append(g.C.Services, s)
	}
	if g.flip("stdlib-template-import") {
		// a getter type from a package the generated code imports for its own needs
		g.C.Services = append(g.C.Services, cfg.Service{Name: "zz-in", Value: cfg.P("os.Stdin"), Getter: cfg.P("GetZzIn"), Type: cfg.P("*os.File")})
		if g.flip("stdlib-template-import2") {
			g.C.Services = append(g.C.Services, cfg.Service{Name: "zz-err", Ctor: cfg.P("errors.New"), Args: []cfg.Val{cfg.Str("e")}, Getter: cfg.P("GetZzErr"), Type: cfg.P("fmt.Stringer")})
		}
		g.L.Add("stdlib-constructor:type-from-a-template-import")
	}
	if g.flip("stdlib-late") {
		g.C.Services = append(g.C.Services, cfg.Service{Name: "zz-rd", Ctor: cfg.P("strings.NewReader"), Args: []cfg.Val{cfg.Str("y")}})
		g.C.Services = append(g.C.Services, cfg.Service{Name: "zz-rn", Value: cfg.P("unicode/utf8.RuneError")})
	}
}
