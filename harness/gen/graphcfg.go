package gen

import (
	"fmt"
	"strings"

	"pgregory.net/rapid"

	"verifh/cfg"
)

// GraphSpec describes a dependency structure explicitly; Config() renders it.
type GraphSpec struct {
	NSvc      int      `json:"nsvc"`
	NTag      int      `json:"ntag"`
	NParam    int      `json:"nparam"`
	SvcRefs   [][3]int `json:"svc_refs,omitempty"`   // service i -> @service j via kind k (0 arg, 1 field, 2 call argument)
	SvcTags   [][2]int `json:"svc_tags,omitempty"`   // service i carries tag t
	SvcTagged [][3]int `json:"svc_tagged,omitempty"` // service i requests !tagged t via kind k
	SvcParams [][2]int `json:"svc_params,omitempty"` // service i -> %param j%
	DecTag    []int    `json:"dec_tag,omitempty"`    // decorator d is attached to tag t
	DecRefs   [][2]int `json:"dec_refs,omitempty"`   // decorator d -> @service j
	DecTagged [][2]int `json:"dec_tagged,omitempty"` // decorator d -> !tagged t
	DecParams [][2]int `json:"dec_params,omitempty"` // decorator d -> %param j%
	ParamRefs [][2]int `json:"param_refs,omitempty"` // param i -> %param j%
	Scopes    []string `json:"scopes,omitempty"`     // per service: "", shared, contextual, non_shared
	// Place: how the references of one service are laid out. 0: one call per call-argument reference; 1: all
	// call-argument references of a service share one call and a literal follows them (constructor arguments likewise),
	// so no reference is the last argument; 2: as 1 with the literal in front.
	Place int `json:"place,omitempty"`
	// Decoys adds look-alikes that are no dependencies: a parameter named like every service, referenced by every
	// service, and on every service a tag named like the next service (names of different kinds live in different namespaces).
	Decoys bool `json:"decoys,omitempty"`
	// TodoSinks renders every service without outgoing references and without tags as a placeholder
	// (`todo: true`), keeping its declared scope.
	TodoSinks bool `json:"todo_sinks,omitempty"`
	// Names: 0 = s<i> / t<i> / p<i>; 1 = dotted names built from one letter ("n", "n.n", "n.n.n", ...), so that
	// concatenations of two names with a separator coincide for different pairs; 2 = names that differ only in the
	// case of their letters (names are case-sensitive everywhere).
	Names int `json:"names,omitempty"`
	// Quote puts quotation marks into the literal text around parameter references ("%p%", '%p%', `%p%`, and an
	// unbalanced 5" %p%): quotes in plain text mean nothing to the pattern syntax.
	Quote bool `json:"quote,omitempty"`
	// Repeat writes the first reference of every parameter twice before the others ("%a%-%a%:%b%").
	Repeat bool `json:"repeat,omitempty"`
	// Dangling makes every service that references something also reference undefined services whose names sort before,
	// between and after the defined ones (meant for runs with --ignore-missing-services).
	Dangling bool `json:"dangling,omitempty"`
	// TodoTagged: like TodoSinks, but for services that reference nothing and do list tags: a placeholder's other
	// attributes are dropped, so it carries no tag and is decorated by nothing.
	TodoTagged bool `json:"todo_tagged,omitempty"`
}

// caseVariant spells word with the letters chosen by the bits of i in upper case: names that differ only in case.
func caseVariant(word string, i int) string {
	b := []byte(word)
	for k := range b {
		if i&(1<<k) != 0 {
			b[k] -= 'a' - 'A'
		}
	}
	return string(b)
}

func (g GraphSpec) tag(i int) string {
	if g.Names == 2 {
		return caseVariant("tagname", i)
	}
	return TagName(i)
}

func (g GraphSpec) svc(i int) string {
	if g.Names == 2 {
		return caseVariant("service", i)
	}
	if g.Names == 1 {
		return "n" + strings.Repeat(".n", i)
	}
	return SvcName(i)
}

func (g GraphSpec) param(i int) string {
	if g.Names == 2 {
		return caseVariant("param", i)
	}
	if g.Names == 1 {
		return "n" + strings.Repeat(".n", i)
	}
	return ParamName(i)
}

func SvcName(i int) string   { return fmt.Sprintf("s%d", i) }
func TagName(i int) string   { return fmt.Sprintf("t%d", i) }
func ParamName(i int) string { return fmt.Sprintf("p%d", i) }

// Config renders the structure as a configuration over the fixture universe.
func (g GraphSpec) Config() cfg.Config {
	c := cfg.Config{Meta: cfg.Meta{Pkg: cfg.P("app")}}
	for i := 0; i < g.NParam; i++ {
		text := ""
		n := 0
		for _, e := range g.ParamRefs {
			if e[0] == i {
				if n > 0 {
					text += ":"
				}
				ref := "%" + g.param(e[1]) + "%"
				if g.Quote {
					ref = []string{`say "` + ref + `"!`, `'` + ref + `'`, "`" + ref + "`", `5" ` + ref}[(i+n)%4]
				}
				text += ref
				if g.Repeat && n == 0 {
					text += "-" + ref
				}
				n++
			}
		}
		if n == 0 {
			text = fmt.Sprintf("v%d", i)
		}
		c.Params = append(c.Params, cfg.Param{Name: g.param(i), Val: cfg.Str(text)})
	}
	if g.Decoys && g.Names == 0 {
		for j := 0; j < g.NSvc; j++ {
			c.Params = append(c.Params, cfg.Param{Name: g.svc(j), Val: cfg.Str(fmt.Sprintf("decoy%d", j))})
		}
	}
	for i := 0; i < g.NSvc; i++ {
		s := cfg.Service{Name: g.svc(i), Ctor: cfg.P("fx/lib.NewObj")}
		place := func(kind int, text string) {
			switch kind {
			case 1:
				for _, fn := range []string{"FieldA", "FieldB", "fieldC"} {
					used := false
					for _, f := range s.Fields {
						used = used || f.Name == fn
					}
					if !used {
						s.Fields = append(s.Fields, cfg.Field{Name: fn, Val: cfg.Str(text)})
						return
					}
				}
				s.Args = append(s.Args, cfg.Str(text))
			case 2:
				if g.Place != 0 && len(s.Calls) > 0 {
					s.Calls[0].Args = append(s.Calls[0].Args, cfg.Str(text))
					return
				}
				s.Calls = append(s.Calls, cfg.Call{Method: "Call1", Args: []cfg.Val{cfg.Str(text)}})
			default:
				s.Args = append(s.Args, cfg.Str(text))
			}
		}
		for _, e := range g.SvcRefs {
			if e[0] == i {
				place(e[2], "@"+g.svc(e[1]))
			}
		}
		for _, e := range g.SvcTagged {
			if e[0] == i {
				place(e[2], "!tagged "+g.tag(e[1]))
			}
		}
		for _, e := range g.SvcParams {
			if e[0] == i {
				if g.Quote {
					place(0, `dsn="%`+g.param(e[1])+`%" x`)
				} else {
					place(0, "%"+g.param(e[1])+"%")
				}
			}
		}
		for _, e := range g.SvcTags {
			if e[0] == i {
				s.Tags = append(s.Tags, cfg.Tag{Name: g.tag(e[1])})
			}
		}
		if g.Decoys && g.Names == 0 {
			for j := 0; j < g.NSvc; j++ {
				s.Args = append(s.Args, cfg.Str("%"+g.svc(j)+"%"))
			}
			if g.NSvc > 1 {
				s.Tags = append(s.Tags, cfg.Tag{Name: g.svc((i + 1) % g.NSvc)})
			}
		}
		switch g.Place {
		case 1:
			if len(s.Args) > 0 {
				s.Args = append(s.Args, cfg.Str("tail"))
			}
			if len(s.Calls) > 0 {
				s.Calls[0].Args = append(s.Calls[0].Args, cfg.Int(7))
			}
		case 2:
			if len(s.Args) > 0 {
				s.Args = append([]cfg.Val{cfg.Str("head")}, s.Args...)
			}
			if len(s.Calls) > 0 {
				s.Calls[0].Args = append([]cfg.Val{cfg.Int(7)}, s.Calls[0].Args...)
			}
		}
		if i < len(g.Scopes) && g.Scopes[i] != "" {
			s.Scope = cfg.P(g.Scopes[i])
		}
		if g.Dangling && len(s.Args)+len(s.Fields)+len(s.Calls) > 0 {
			s.Args = append([]cfg.Val{cfg.Str("@a-gone")}, append(s.Args, cfg.Str("@"+g.svc(0)+"-gone"), cfg.Str("@zz-gone"))...)
		}
		if g.TodoTagged && len(s.Args)+len(s.Fields)+len(s.Calls) == 0 && len(s.Tags) > 0 {
			yes := true
			s = cfg.Service{Name: s.Name, Todo: &yes, Scope: s.Scope, Tags: s.Tags, Ctor: s.Ctor}
		}
		if g.TodoSinks && len(s.Args)+len(s.Fields)+len(s.Calls)+len(s.Tags) == 0 {
			yes := true
			s = cfg.Service{Name: s.Name, Todo: &yes, Scope: s.Scope}
		}
		c.Services = append(c.Services, s)
	}
	for d, t := range g.DecTag {
		dec := cfg.Decorator{Tag: g.tag(t), Fn: "fx/lib.Decorate"}
		for _, e := range g.DecRefs {
			if e[0] == d {
				dec.Args = append(dec.Args, cfg.Str("@"+g.svc(e[1])))
			}
		}
		for _, e := range g.DecTagged {
			if e[0] == d {
				dec.Args = append(dec.Args, cfg.Str("!tagged "+g.tag(e[1])))
			}
		}
		for _, e := range g.DecParams {
			if e[0] == d {
				dec.Args = append(dec.Args, cfg.Str("%"+g.param(e[1])+"%"))
			}
		}
		c.Decorators = append(c.Decorators, dec)
	}
	return c
}

// RandomGraph draws a sparse dependency structure with self-loops and overlapping cycles allowed.
func RandomGraph(t *rapid.T, maxSvc, maxTag, maxDec, maxParam int, scopes bool) GraphSpec {
	g := GraphSpec{
		NSvc:   rapid.IntRange(1, maxSvc).Draw(t, "nsvc"),
		NTag:   rapid.IntRange(0, maxTag).Draw(t, "ntag"),
		NParam: rapid.IntRange(0, maxParam).Draw(t, "nparam"),
	}
	nd := 0
	if g.NTag > 0 {
		nd = rapid.IntRange(0, maxDec).Draw(t, "ndec")
	}
	pick := func(n int, l string) int { return rapid.IntRange(0, n-1).Draw(t, l) }
	ne := rapid.IntRange(0, g.NSvc+2).Draw(t, "nrefs")
	for i := 0; i < ne; i++ {
		g.SvcRefs = append(g.SvcRefs, [3]int{pick(g.NSvc, "rf"), pick(g.NSvc, "rt"), pick(3, "rk")})
	}
	if g.NTag > 0 {
		for i := rapid.IntRange(0, g.NSvc+1).Draw(t, "ncarry"); i > 0; i-- {
			e := [2]int{pick(g.NSvc, "cf"), pick(g.NTag, "ct")}
			dup := false
			for _, x := range g.SvcTags {
				dup = dup || x == e
			}
			if !dup {
				g.SvcTags = append(g.SvcTags, e)
			}
		}
		for i := rapid.IntRange(0, 3).Draw(t, "ntagged"); i > 0; i-- {
			g.SvcTagged = append(g.SvcTagged, [3]int{pick(g.NSvc, "tf"), pick(g.NTag, "tt"), pick(3, "tk")})
		}
	}
	for d := 0; d < nd; d++ {
		g.DecTag = append(g.DecTag, pick(g.NTag, "dt"))
		for i := rapid.IntRange(0, 2).Draw(t, "ndr"); i > 0; i-- {
			g.DecRefs = append(g.DecRefs, [2]int{d, pick(g.NSvc, "drt")})
		}
		if rapid.IntRange(0, 3).Draw(t, "dtg?") == 0 {
			g.DecTagged = append(g.DecTagged, [2]int{d, pick(g.NTag, "dtt")})
		}
		if g.NParam > 0 && rapid.IntRange(0, 3).Draw(t, "dp?") == 0 {
			g.DecParams = append(g.DecParams, [2]int{d, pick(g.NParam, "dpt")})
		}
	}
	if g.NParam > 0 {
		for i := rapid.IntRange(0, g.NParam+1).Draw(t, "nprefs"); i > 0; i-- {
			g.ParamRefs = append(g.ParamRefs, [2]int{pick(g.NParam, "pf"), pick(g.NParam, "pt")})
		}
		for i := rapid.IntRange(0, 2).Draw(t, "nsp"); i > 0; i-- {
			g.SvcParams = append(g.SvcParams, [2]int{pick(g.NSvc, "spf"), pick(g.NParam, "spt")})
		}
	}
	if scopes {
		for i := 0; i < g.NSvc; i++ {
			g.Scopes = append(g.Scopes, rapid.SampledFrom([]string{"", "", "shared", "contextual", "non_shared"}).Draw(t, "scope"))
		}
	}
	g.Place = rapid.IntRange(0, 2).Draw(t, "place")
	g.Decoys = rapid.Bool().Draw(t, "decoys")
	if !g.Decoys {
		switch rapid.IntRange(0, 3).Draw(t, "dotted") {
		case 0:
			g.Names = 1
		case 1:
			g.Names = 2
		}
	}
	g.Quote = rapid.IntRange(0, 2).Draw(t, "quote") == 0
	return g
}

// EdgeGraph builds a structure from typed edges between services. Edge kinds:
// 0 constructor argument, 1 field, 2 call argument, 3 through a tag (target carries
// a tag the source requests with !tagged), 4 through a decorator (source carries a
// tag whose decorator depends on the target).
func EdgeGraph(n int, edges [][3]int, scopes []string) GraphSpec {
	g := GraphSpec{NSvc: n, Scopes: scopes}
	for _, e := range edges {
		i, j, k := e[0], e[1], e[2]
		switch k {
		case 0, 1, 2:
			g.SvcRefs = append(g.SvcRefs, [3]int{i, j, k})
		case 3:
			t := g.NTag
			g.NTag++
			g.SvcTags = append(g.SvcTags, [2]int{j, t})
			g.SvcTagged = append(g.SvcTagged, [3]int{i, t, 0})
		case 4:
			t := g.NTag
			g.NTag++
			g.SvcTags = append(g.SvcTags, [2]int{i, t})
			d := len(g.DecTag)
			g.DecTag = append(g.DecTag, t)
			g.DecRefs = append(g.DecRefs, [2]int{d, j})
		}
	}
	return g
}
