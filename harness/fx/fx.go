// Package fx materialises the fixture universe (a Go module in which every symbol
// a generated configuration may name exists), places generated containers in it,
// builds them in batches with the real Go toolchain and runs the probe.
package fx

import (
	"bytes"
	_ "embed"
	"encoding/json"
	"fmt"
	"os"
	"os/exec"
	"path/filepath"
	"regexp"
	"sort"
	"strings"
	"syscall"
	"time"
)

//go:embed tpl/rec.go.txt
var tplRec string

//go:embed tpl/lib.go.txt
var tplLib string

//go:embed tpl/probe.go.txt
var tplProbe string

//go:embed tpl/libtypes.go.txt
var tplLibTypes string

// LibPkg is one fixture library package.
type LibPkg struct {
	Path string // import path, e.g. fx/lib
	Name string // package clause
}

// Libs are the fixture packages: confusable paths, identical symbols.
var Libs = []LibPkg{
	{"fx/lib", "lib"},
	{"fx/libx", "libx"},
	{"fx/lib/sub", "sub"},
	{"fx/a/lib", "lib"},
	{"fx/b/lib", "lib"},
	{"fx/my-lib.v2", "mylib"},
	{"fx/os", "os"},
	{"fx/fmt", "fmt"},
	{"fx/errors", "errors"},
	{"fx/context", "context"},
	{"fx/reflect", "reflect"},
	{"fx/strconv", "strconv"},
}

// LocalID is the ID constant of the symbols declared in the container's own package.
const LocalID = "."

type Universe struct {
	Dir       string
	TypesOnly bool
	GoCache   string // private build cache of this universe ("" = the default cache)

	copiedBase bool
	cacheMark  time.Time
	batches    int
	seq        int
	Race       bool
	Stats      struct {
		Builds, Rebuilds, ProbeRuns int
		BuildTime, ProbeTime        time.Duration
	}
}

func helpersRequire(repoDir string) (string, error) {
	b, err := os.ReadFile(filepath.Join(repoDir, "go.mod"))
	if err != nil {
		return "", err
	}
	re := regexp.MustCompile(`(?m)^\s*(github\.com/gontainer/gontainer-helpers/v3)\s+(\S+)`)
	m := re.FindStringSubmatch(string(b))
	if m == nil {
		return "", fmt.Errorf("gontainer-helpers requirement not found in %s/go.mod", repoDir)
	}
	return m[1] + " " + m[2], nil
}

// NewTypesOnlyUniverse writes a variant of the module in which the user packages
// declare types only (no functions, variables or constants): stub output must
// compile against it.
func NewTypesOnlyUniverse(dir, repoDir string) (*Universe, error) {
	u, err := NewUniverse(dir, repoDir)
	if err != nil {
		return nil, err
	}
	u.TypesOnly = true
	for _, l := range Libs {
		src := strings.ReplaceAll(tplLibTypes, "PKGNAME", l.Name)
		if err := os.WriteFile(filepath.Join(dir, strings.TrimPrefix(l.Path, "fx/"), "lib.go"), []byte(src), 0o644); err != nil {
			return nil, err
		}
	}
	return u, nil
}

// CompileOnly writes the containers (generated file + types-only local catalog, no
// probe registration) and compiles them with the given tags; fills CompileErr.
func (u *Universe) CompileOnly(cs []*Container, tags string) error {
	defer func() {
		for _, c := range cs {
			_ = os.RemoveAll(filepath.Join(u.Dir, "g", c.Name))
		}
		u.TrimCache()
	}()
	var pkgs []string
	for _, c := range cs {
		d := filepath.Join(u.Dir, "g", c.Name)
		if err := os.MkdirAll(d, 0o755); err != nil {
			return err
		}
		if err := os.WriteFile(filepath.Join(d, "gen.go"), c.Source, 0o644); err != nil {
			return err
		}
		local := strings.ReplaceAll(tplLibTypes, "PKGNAME", c.Pkg)
		if err := os.WriteFile(filepath.Join(d, "local.go"), []byte(local), 0o644); err != nil {
			return err
		}
		pkgs = append(pkgs, "./g/"+c.Name)
	}
	args := []string{"build"}
	if tags != "" {
		args = append(args, "-tags", tags)
	}
	args = append(args, pkgs...)
	cmd := exec.Command("go", args...)
	cmd.Dir = u.Dir
	cmd.Env = u.goEnv()
	out, err := cmd.CombinedOutput()
	u.Stats.Builds++
	if err == nil {
		return nil
	}
	text := string(out)
	failed := map[string][]string{}
	cur := ""
	for _, ln := range strings.Split(text, "\n") {
		if m := rePkgLine.FindStringSubmatch(ln); m != nil {
			cur = m[1]
			continue
		}
		if m := reCompileErr.FindStringSubmatch(ln); m != nil {
			failed[m[1]] = append(failed[m[1]], ln)
			continue
		}
		if cur != "" && strings.TrimSpace(ln) != "" && !strings.HasPrefix(ln, "# ") {
			failed[cur] = append(failed[cur], ln)
		}
	}
	if len(failed) == 0 {
		return fmt.Errorf("go build failed and the failure cannot be attributed:\n%s", text)
	}
	for _, c := range cs {
		if e, ok := failed[c.Name]; ok {
			c.CompileErr = strings.Join(e, "\n")
		}
	}
	return nil
}

// NewUniverse writes the module below dir.
func NewUniverse(dir, repoDir string) (*Universe, error) {
	req, err := helpersRequire(repoDir)
	if err != nil {
		return nil, err
	}
	u := &Universe{Dir: dir}
	w := func(rel, content string) error {
		p := filepath.Join(dir, rel)
		if err := os.MkdirAll(filepath.Dir(p), 0o755); err != nil {
			return err
		}
		return os.WriteFile(p, []byte(content), 0o644)
	}
	gomod := "module fx\n\ngo 1.21\n\nrequire " + req + "\n"
	if err := w("go.mod", gomod); err != nil {
		return nil, err
	}
	sum, err := os.ReadFile(filepath.Join(repoDir, "go.sum"))
	if err != nil {
		return nil, err
	}
	if err := w("go.sum", string(sum)); err != nil {
		return nil, err
	}
	if err := w("rec/rec.go", tplRec); err != nil {
		return nil, err
	}
	if err := w("probe/probe.go", tplProbe); err != nil {
		return nil, err
	}
	for _, l := range Libs {
		src := strings.ReplaceAll(tplLib, "PKGNAME", l.Name)
		src = strings.ReplaceAll(src, "PKGID", l.Path)
		if err := w(strings.TrimPrefix(l.Path, "fx/")+"/lib.go", src); err != nil {
			return nil, err
		}
	}
	return u, nil
}

// LocalSource returns the catalog declared inside the container's own package.
func LocalSource(pkg string) string {
	src := strings.ReplaceAll(tplLib, "PKGNAME", pkg)
	return strings.ReplaceAll(src, "PKGID", LocalID)
}

// Container is one generated package to be built and probed.
type Container struct {
	Name    string // registry and directory name, unique within the universe
	Pkg     string // expected package clause
	Type    string // expected container type
	Ctor    string // expected constructor
	Source  []byte // the tool's output
	Script  any    // probe.Script (JSON-marshalled as is)
	NoLocal bool   // do not add the local catalog (the package declares nothing else)
	// LocalExtra: further declarations of the container's own package (a Go file without the package clause)
	LocalExtra string

	// results
	CompileErr string
	Out        *ProbeOut
	Crashed    string // probe process died while this container ran
}

// ProbeOut mirrors probe.Out.
type ProbeOut struct {
	Registered bool   `json:"registered"`
	CtorPanic  string `json:"ctor_panic"`
	Alive      bool   `json:"alive"`
	Hang       bool   `json:"hang"`
	Res        []Res  `json:"res"`
}

type V struct {
	T string `json:"t"`
	S string `json:"s,omitempty"`
	O *Obj   `json:"o,omitempty"`
	L []V    `json:"l,omitempty"`
	C bool   `json:"c,omitempty"`
}

type Obj struct {
	Pkg    string       `json:"pkg"`
	Kind   string       `json:"kind"`
	Serial int64        `json:"serial"`
	Origin string       `json:"origin"`
	Args   []V          `json:"args,omitempty"`
	Fields map[string]V `json:"fields,omitempty"`
	Log    []Call       `json:"log,omitempty"`
	Parent *V           `json:"parent,omitempty"`
}

type Call struct {
	M    string `json:"m"`
	Args []V    `json:"args,omitempty"`
}

type Method struct {
	Name string `json:"name"`
	Sig  string `json:"sig"`
}

type Res struct {
	Op       string         `json:"op"`
	ID       string         `json:"id,omitempty"`
	Ctx      string         `json:"ctx,omitempty"`
	V        *V             `json:"v,omitempty"`
	L        []V            `json:"l,omitempty"`
	IsList   bool           `json:"is_list,omitempty"`
	Err      string         `json:"err,omitempty"`
	Panic    string         `json:"panic,omitempty"`
	Bool     bool           `json:"bool,omitempty"`
	Methods  []Method       `json:"methods,omitempty"`
	Counters map[string]int `json:"counters,omitempty"`
	Par      [][]Res        `json:"par,omitempty"`
	Missing  bool           `json:"missing,omitempty"`
	TypeName string         `json:"type_name,omitempty"`
	PkgPath  string         `json:"pkg_path,omitempty"`
}

// Lit / Op / Script mirror the probe's input types.
type Lit struct {
	K string  `json:"k"`
	I int64   `json:"i,omitempty"`
	F float64 `json:"f,omitempty"`
	B bool    `json:"b,omitempty"`
	S string  `json:"s,omitempty"`
}

type Op struct {
	Op    string `json:"op"`
	ID    string `json:"id,omitempty"`
	Ctx   string `json:"ctx,omitempty"`
	Val   *Lit   `json:"val,omitempty"`
	Par   [][]Op `json:"par,omitempty"`
	Rep   int    `json:"rep,omitempty"`
	Tag   string `json:"tag,omitempty"`
	Yield []int  `json:"yield,omitempty"`
}

type Script struct {
	Env     map[string]*string `json:"env,omitempty"`
	Ops     []Op               `json:"ops"`
	Procs   int                `json:"procs,omitempty"`
	Timeout int                `json:"timeout_s,omitempty"`
}

// NextName returns a fresh container name.
func (u *Universe) NextName() string {
	u.seq++
	return fmt.Sprintf("g%d", u.seq)
}

var reCompileErr = regexp.MustCompile(`(?m)^(?:\./)?g/([A-Za-z0-9_]+)/[^:\s]+:\d+(?::\d+)?: .*$`)
var rePkgLine = regexp.MustCompile(`(?m)^# fx/g/([A-Za-z0-9_]+)\b.*$`)

// BuildBatch writes the containers, builds one probe binary for all of them (tags:
// e.g. "gontainerstub"), runs the probe and fills in the per-container results.
// Containers whose package is "main" are built and run one by one.
// The directories are removed afterwards.
func (u *Universe) BuildBatch(cs []*Container, tags string) error {
	var lib, mains []*Container
	for _, c := range cs {
		if c.Pkg == "main" {
			mains = append(mains, c)
		} else {
			lib = append(lib, c)
		}
	}
	defer func() {
		for _, c := range cs {
			_ = os.RemoveAll(filepath.Join(u.Dir, "g", c.Name))
		}
		u.TrimCache()
	}()
	for _, c := range cs {
		if err := u.write(c); err != nil {
			return err
		}
	}
	// packages that do not exist are a loader error, which `go build` reports a few at a
	// time: find them up front
	keep := func(in []*Container) []*Container {
		var out []*Container
		for _, c := range in {
			if msg := u.unknownImports(c.Source); msg != "" {
				c.CompileErr = msg
				continue
			}
			out = append(out, c)
		}
		return out
	}
	lib, mains = keep(lib), keep(mains)
	if len(lib) > 0 {
		if err := u.buildAndRun(lib, tags, false); err != nil {
			return err
		}
	}
	for _, c := range mains {
		if err := u.buildAndRun([]*Container{c}, tags, true); err != nil {
			return err
		}
	}
	return nil
}

var stdAllowed = map[string]bool{"context": true, "errors": true, "fmt": true, "os": true, "reflect": true, "strconv": true, "math": true, "strings": true, "bytes": true, "unicode/utf8": true,
	// anything else a changed template might reasonably import: the compiler decides, not this pre-check
	"sync": true, "sync/atomic": true, "time": true, "io": true, "sort": true, "unicode": true, "bufio": true, "math/big": true, "math/bits": true,
	"encoding/json": true, "path": true, "path/filepath": true, "regexp": true, "runtime": true, "unsafe": true, "slices": true, "maps": true, "cmp": true,
	"container/list": true, "hash/fnv": true, "log": true, "io/fs": true, "text/template": true, "errors/": false}

var reImportLine = regexp.MustCompile(`(?m)^\s*(?:[A-Za-z_][A-Za-z0-9_]*\s+)?"([^"]+)"\s*$`)

// unknownImports returns a compile-error text if the source imports a package that does not exist.
func (u *Universe) unknownImports(src []byte) string {
	text := string(src)
	i := strings.Index(text, "import (")
	if i < 0 {
		return ""
	}
	j := strings.Index(text[i:], "\n)")
	if j < 0 {
		return ""
	}
	var bad []string
	for _, m := range reImportLine.FindAllStringSubmatch(text[i:i+j], -1) {
		p := m[1]
		switch {
		case stdAllowed[p]:
		case strings.HasPrefix(p, "github.com/gontainer/gontainer-helpers/v3/"):
		case strings.HasPrefix(p, "fx/"):
			if _, err := os.Stat(filepath.Join(u.Dir, strings.TrimPrefix(p, "fx/"))); err != nil {
				bad = append(bad, p)
			}
		default:
			bad = append(bad, p)
		}
	}
	if len(bad) > 0 {
		return "gen.go: package " + strings.Join(bad, ", ") + " does not exist (imported by the generated file)"
	}
	return ""
}

func (u *Universe) write(c *Container) error {
	d := filepath.Join(u.Dir, "g", c.Name)
	if err := os.MkdirAll(d, 0o755); err != nil {
		return err
	}
	if err := os.WriteFile(filepath.Join(d, "gen.go"), c.Source, 0o644); err != nil {
		return err
	}
	if !c.NoLocal {
		if err := os.WriteFile(filepath.Join(d, "local.go"), []byte(LocalSource(c.Pkg)), 0o644); err != nil {
			return err
		}
	}
	if c.LocalExtra != "" {
		if err := os.WriteFile(filepath.Join(d, "local_extra.go"), []byte("package "+c.Pkg+"\n\n"+c.LocalExtra), 0o644); err != nil {
			return err
		}
	}
	zz := "package " + c.Pkg + "\n\nimport \"fx/probe\"\n\n" +
		"func init() {\n\tprobe.Register(" + fmt.Sprintf("%q", c.Name) + ", func() interface{} { return " + c.Ctor + "() }, (*" + c.Type + ")(nil))\n}\n"
	if c.Pkg == "main" {
		zz += "\nfunc main() { probe.Main() }\n"
	}
	return os.WriteFile(filepath.Join(d, "zz_probe.go"), []byte(zz), 0o644)
}

func (u *Universe) goEnv() []string {
	env := os.Environ()
	env = append(env, "GOFLAGS=-mod=mod", "GOPROXY=off", "GOSUMDB=off", "GOTOOLCHAIN=local")
	if u.GoCache != "" {
		env = append(env, "GOCACHE="+u.GoCache)
	}
	return env
}

// UsePrivateCache gives the universe its own Go build cache below dir, seeded with hard links
// to the files of base (a cache holding the standard library, the runtime library and the fixture
// packages). Generated packages are unique per batch, so their cache entries are useless
// afterwards: TrimCache removes everything that is not shared with the base.
func (u *Universe) UsePrivateCache(dir, base string) error {
	_ = os.RemoveAll(dir)
	if base != "" {
		if _, err := os.Stat(base); err == nil {
			if out, err := exec.Command("cp", "-al", base, dir).CombinedOutput(); err != nil {
				_ = os.RemoveAll(dir)
				if out2, err2 := exec.Command("cp", "-a", base, dir).CombinedOutput(); err2 != nil {
					return fmt.Errorf("seeding the build cache: %v %s / %v %s", err, out, err2, out2)
				}
				u.copiedBase = true
			}
		}
	}
	if err := os.MkdirAll(dir, 0o755); err != nil {
		return err
	}
	u.GoCache = dir
	u.cacheMark = time.Now()
	return nil
}

// TrimCache deletes the cache entries created since the cache was seeded.
func (u *Universe) TrimCache() {
	if u.GoCache == "" {
		return
	}
	u.batches++
	if u.batches%4 != 0 {
		return
	}
	_ = filepath.Walk(u.GoCache, func(p string, info os.FileInfo, err error) error {
		if err != nil || info.IsDir() {
			return nil
		}
		if filepath.Base(p) == "trim.txt" || filepath.Base(p) == "README" {
			return nil
		}
		if st, ok := info.Sys().(*syscall.Stat_t); ok && !u.copiedBase {
			if st.Nlink > 1 {
				return nil // shared with the base cache
			}
		} else if info.ModTime().Before(u.cacheMark) {
			return nil
		}
		_ = os.Remove(p)
		return nil
	})
}

func (u *Universe) buildAndRun(cs []*Container, tags string, isMain bool) error {
	u.seq++
	binDir := filepath.Join(u.Dir, "bin")
	_ = os.MkdirAll(binDir, 0o755)
	bin := filepath.Join(binDir, fmt.Sprintf("probe%d", u.seq))
	defer os.Remove(bin)
	live := append([]*Container{}, cs...)
	var target string
	cmdDir := filepath.Join(u.Dir, "cmd", fmt.Sprintf("b%d", u.seq))
	defer os.RemoveAll(cmdDir)
	for attempt := 0; ; attempt++ {
		if len(live) == 0 {
			return nil
		}
		if isMain {
			target = "./g/" + live[0].Name
		} else {
			_ = os.MkdirAll(cmdDir, 0o755)
			var sb strings.Builder
			sb.WriteString("package main\n\nimport (\n\t\"fx/probe\"\n")
			for _, c := range live {
				fmt.Fprintf(&sb, "\t_ \"fx/g/%s\"\n", c.Name)
			}
			sb.WriteString(")\n\nfunc main() { probe.Main() }\n")
			if err := os.WriteFile(filepath.Join(cmdDir, "main.go"), []byte(sb.String()), 0o644); err != nil {
				return err
			}
			target = "./cmd/" + filepath.Base(cmdDir)
		}
		args := []string{"build", "-o", bin}
		if tags != "" {
			args = append(args, "-tags", tags)
		}
		if u.Race {
			args = append(args, "-race")
		}
		args = append(args, target)
		cmd := exec.Command("go", args...)
		cmd.Dir = u.Dir
		cmd.Env = u.goEnv()
		t0 := time.Now()
		out, err := cmd.CombinedOutput()
		u.Stats.Builds++
		u.Stats.BuildTime += time.Since(t0)
		if err == nil {
			break
		}
		if attempt > 0 {
			u.Stats.Rebuilds++
		}
		// attribute errors to containers
		text := string(out)
		failed := map[string][]string{}
		cur := ""
		for _, ln := range strings.Split(text, "\n") {
			if m := rePkgLine.FindStringSubmatch(ln); m != nil {
				cur = m[1]
				continue
			}
			if strings.HasPrefix(ln, "# ") {
				cur = ""
				continue
			}
			if m := reCompileErr.FindStringSubmatch(ln); m != nil {
				failed[m[1]] = append(failed[m[1]], ln)
				continue
			}
			if cur != "" && strings.TrimSpace(ln) != "" {
				failed[cur] = append(failed[cur], ln)
			}
		}
		var next []*Container
		progress := false
		for _, c := range live {
			if e, ok := failed[c.Name]; ok {
				c.CompileErr = strings.Join(e, "\n")
				progress = true
			} else {
				next = append(next, c)
			}
		}
		if !progress {
			return fmt.Errorf("go build failed and the failure cannot be attributed to a generated container:\n%s", text)
		}
		live = next
		if attempt > 12 {
			return fmt.Errorf("go build: too many attempts:\n%s", text)
		}
	}
	// run the probe; if the process dies, mark the running container and continue with the rest
	pending := append([]*Container{}, live...)
	for len(pending) > 0 {
		scripts := map[string]any{}
		var order []string
		for _, c := range pending {
			scripts[c.Name] = c.Script
			order = append(order, c.Name)
		}
		in, _ := json.Marshal(map[string]any{"order": order, "scripts": scripts})
		inF := bin + ".in.json"
		outF := bin + ".out.json"
		progF := bin + ".progress"
		_ = os.WriteFile(inF, in, 0o644)
		_ = os.Remove(outF)
		_ = os.WriteFile(progF, nil, 0o644)
		cmd := exec.Command(bin, inF, outF, progF)
		cmd.Dir = u.Dir
		var stderr bytes.Buffer
		cmd.Stderr = &stderr
		cmd.Stdout = &stderr
		cmd.Env = append(os.Environ(), "GORACE=halt_on_error=1 exitcode=66")
		t0 := time.Now()
		done := make(chan error, 1)
		if err := cmd.Start(); err != nil {
			return err
		}
		go func() { done <- cmd.Wait() }()
		var runErr error
		select {
		case runErr = <-done:
		case <-time.After(10 * time.Minute):
			_ = cmd.Process.Kill()
			runErr = <-done
			if runErr == nil {
				runErr = fmt.Errorf("probe timed out")
			}
		}
		u.Stats.ProbeRuns++
		u.Stats.ProbeTime += time.Since(t0)
		outs := map[string]*ProbeOut{}
		if b, err := os.ReadFile(outF); err == nil {
			_ = json.Unmarshal(b, &outs)
		}
		_ = os.Remove(inF)
		_ = os.Remove(outF)
		prog, _ := os.ReadFile(progF)
		_ = os.Remove(progF)
		if runErr == nil {
			for _, c := range pending {
				c.Out = outs[c.Name]
			}
			break
		}
		// crashed: containers before the running one may be in a partial flush only if a hang was
		// flushed; re-run everything after the crashing container, mark the crasher
		crasher := string(prog)
		if crasher == "" {
			// died during package initialisation: attribute through the stack trace
			if m := regexp.MustCompile(`fx/g/([A-Za-z0-9_]+)`).FindStringSubmatch(stderr.String()); m != nil {
				crasher = m[1]
			}
		}
		if crasher == "" {
			return fmt.Errorf("probe crashed and the crash cannot be attributed: %v\n%s", runErr, tailStr(stderr.String(), 40))
		}
		var rest []*Container
		found := false
		initCrash := string(prog) == ""
		for _, c := range pending {
			if c.Name == crasher {
				c.Crashed = fmt.Sprintf("%v\n%s", runErr, headTail(stderr.String(), 40, 40))
				found = true
				continue
			}
			if o, ok := outs[c.Name]; ok && !initCrash {
				c.Out = o
				continue
			}
			rest = append(rest, c)
		}
		if !found {
			return fmt.Errorf("probe crashed in unknown container %q: %v\n%s", crasher, runErr, tailStr(stderr.String(), 40))
		}
		if initCrash && !isMain {
			// the binary cannot start with this package linked in: rebuild without it
			return u.buildAndRun(rest, tags, isMain)
		}
		pending = rest
	}
	return nil
}

func headTail(s string, h, t int) string {
	l := strings.Split(strings.TrimRight(s, "\n"), "\n")
	if len(l) <= h+t {
		return strings.Join(l, "\n")
	}
	return strings.Join(l[:h], "\n") + "\n...\n" + strings.Join(l[len(l)-t:], "\n")
}

func tailStr(s string, n int) string {
	l := strings.Split(strings.TrimRight(s, "\n"), "\n")
	if len(l) > n {
		l = l[len(l)-n:]
	}
	return strings.Join(l, "\n")
}

// SortedKeys is a small helper for deterministic iteration.
func SortedKeys[V any](m map[string]V) []string {
	ks := make([]string, 0, len(m))
	for k := range m {
		ks = append(ks, k)
	}
	sort.Strings(ks)
	return ks
}

// WarmBaseCache builds the standard library, the runtime library, the fixture packages and the
// probe (normal, -race and with the stub tag) into the cache directory base.
func WarmBaseCache(base, workDir, repoDir string) error {
	if err := os.MkdirAll(base, 0o755); err != nil {
		return err
	}
	for _, variant := range []string{"normal", "types"} {
		dir := filepath.Join(workDir, "warm-"+variant)
		var u *Universe
		var err error
		if variant == "types" {
			u, err = NewTypesOnlyUniverse(dir, repoDir)
		} else {
			u, err = NewUniverse(dir, repoDir)
		}
		if err != nil {
			return err
		}
		u.GoCache = base
		var sb strings.Builder
		sb.WriteString("package main\n\nimport (\n")
		if variant == "normal" {
			sb.WriteString("\t\"fx/probe\"\n")
		}
		for _, l := range Libs {
			fmt.Fprintf(&sb, "\t_ %q\n", l.Path)
		}
		sb.WriteString("\t_ \"github.com/gontainer/gontainer-helpers/v3/caller\"\n\t_ \"github.com/gontainer/gontainer-helpers/v3/copier\"\n\t_ \"github.com/gontainer/gontainer-helpers/v3/exporter\"\n\t_ \"github.com/gontainer/gontainer-helpers/v3/grouperror\"\n\t_ \"github.com/gontainer/gontainer-helpers/v3/container\"\n")
		sb.WriteString("\t_ \"context\"\n\t_ \"errors\"\n\t_ \"fmt\"\n\t_ \"os\"\n\t_ \"reflect\"\n\t_ \"strconv\"\n)\n\nfunc main() {")
		if variant == "normal" {
			sb.WriteString(" probe.Main() ")
		}
		sb.WriteString("}\n")
		cmdDir := filepath.Join(dir, "cmd", "warm")
		if err := os.MkdirAll(cmdDir, 0o755); err != nil {
			return err
		}
		if err := os.WriteFile(filepath.Join(cmdDir, "main.go"), []byte(sb.String()), 0o644); err != nil {
			return err
		}
		variants := [][]string{{"build", "-o", filepath.Join(dir, "warm.bin"), "./cmd/warm"}}
		if variant == "normal" {
			variants = append(variants, []string{"build", "-race", "-o", filepath.Join(dir, "warm-race.bin"), "./cmd/warm"},
				[]string{"build", "-tags", "gontainerstub", "-o", filepath.Join(dir, "warm-stub.bin"), "./cmd/warm"})
		} else {
			variants = append(variants, []string{"build", "-tags", "gontainerstub", "-o", filepath.Join(dir, "warm-stub.bin"), "./cmd/warm"})
		}
		for _, args := range variants {
			cmd := exec.Command("go", args...)
			cmd.Dir = dir
			cmd.Env = u.goEnv()
			if out, err := cmd.CombinedOutput(); err != nil {
				return fmt.Errorf("warming the base cache (%v): %v\n%s", args, err, out)
			}
		}
		_ = os.RemoveAll(dir)
	}
	return nil
}

// CatalogFingerprint changes whenever the fixture sources change (keys the base cache).
func CatalogFingerprint() string {
	return fmt.Sprintf("%d-%d-%d-%d", len(tplRec), len(tplLib), len(tplProbe), len(tplLibTypes)) + tplLib[:64]
}
