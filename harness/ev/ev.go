// Package ev collects evidence counters, samples, known-finding hits and
// violations inside one shard process and flushes them to $VERIF_OUT.
package ev

import (
	"encoding/json"
	"fmt"
	"hash/fnv"
	"os"
	"path/filepath"
	"sort"
	"strconv"
	"sync"
)

// Shard is what one process writes; the driver merges shards.
type Shard struct {
	Property    string            `json:"property"`
	Shard       int               `json:"shard"`
	Evaluations int               `json:"evaluations"`
	NonTrivial  []uint64          `json:"nontrivial_hashes"`
	Labels      map[string]int    `json:"labels"`
	Excluded    map[string]int    `json:"excluded"`
	Samples     []any             `json:"samples"`
	Known       map[string]string `json:"known"`
	Exhaustive  []string          `json:"exhaustive_parts"`
	Notes       []string          `json:"notes"`
	Completed   bool              `json:"completed"`
}

// Finding is one entry of known_findings.json.
type Finding struct {
	Property string `json:"property"`
	Status   string `json:"status"` // "open" or "fixed"
	Key      string `json:"key,omitempty"`
	Commit   string `json:"commit,omitempty"`
	What     string `json:"what"`
}

// Violation is the replay file format.
type Violation struct {
	Property string `json:"property"`
	Key      string `json:"key"`
	What     string `json:"what"`
	Replay   any    `json:"replay"`
}

type Collector struct {
	mu        sync.Mutex
	id        string
	shard     int
	evals     int
	nt        map[uint64]struct{}
	labels    map[string]int
	excluded  map[string]int
	samples   []any
	sampleCnt map[string]int
	known     map[string]string
	exh       []string
	notes     []string
	open      map[string]Finding
	outDir    string
	completed bool
}

var (
	global     *Collector
	globalOnce sync.Once
)

func Env(k, def string) string {
	if v := os.Getenv(k); v != "" {
		return v
	}
	return def
}

func EnvInt(k string, def int) int {
	if v := os.Getenv(k); v != "" {
		if n, err := strconv.Atoi(v); err == nil {
			return n
		}
	}
	return def
}

func Tier() string       { return Env("VERIF_TIER", "quick") }
func Thorough() bool     { return Tier() == "thorough" }
func ShardIndex() int    { return EnvInt("VERIF_SHARD", 0) }
func NumShards() int     { return EnvInt("VERIF_NSHARDS", 1) }
func Seed() int          { return EnvInt("VERIF_SEED", 1) }
func VerifDir() string   { return Env("VERIF_DIR", "/verif") }
func RepoDir() string    { return Env("VERIF_REPO", "/repo") }
func OutDir() string     { return Env("VERIF_OUT", filepath.Join(os.TempDir(), "verif-out")) }
func ScratchDir() string { return Env("VERIF_SCRATCH", os.TempDir()) }

// Mine reports whether index i belongs to this shard (enumerators are partitioned by index).
func Mine(i int) bool { return i%NumShards() == ShardIndex() }

// Get returns the process-wide collector.
func Get() *Collector {
	globalOnce.Do(func() {
		c := &Collector{
			id:        Env("VERIF_PROPERTY", "C00"),
			shard:     ShardIndex(),
			nt:        map[uint64]struct{}{},
			labels:    map[string]int{},
			excluded:  map[string]int{},
			sampleCnt: map[string]int{},
			known:     map[string]string{},
			open:      map[string]Finding{},
			outDir:    OutDir(),
		}
		_ = os.MkdirAll(c.outDir, 0o755)
		for _, f := range LoadFindings() {
			if f.Status == "open" && f.Property == c.id {
				c.open[f.Key] = f
			}
		}
		global = c
	})
	return global
}

// LoadFindings reads $VERIF_DIR/known_findings.json (never written at run time).
func LoadFindings() []Finding {
	b, err := os.ReadFile(filepath.Join(VerifDir(), "known_findings.json"))
	if err != nil {
		return nil
	}
	var fs struct {
		Findings []Finding `json:"findings"`
	}
	if err := json.Unmarshal(b, &fs); err != nil {
		panic("known_findings.json: " + err.Error())
	}
	return fs.Findings
}

// OpenKeysFor returns the open finding keys of any property (generators of other
// properties exclude listed classes by construction).
func OpenKeysFor(property string) map[string]bool {
	r := map[string]bool{}
	for _, f := range LoadFindings() {
		if f.Status == "open" && f.Property == property {
			r[f.Key] = true
		}
	}
	return r
}

func Hash(v any) uint64 {
	b, _ := json.Marshal(v)
	h := fnv.New64a()
	_, _ = h.Write(b)
	return h.Sum64()
}

func HashStr(parts ...string) uint64 {
	h := fnv.New64a()
	for _, p := range parts {
		_, _ = h.Write([]byte(p))
		_, _ = h.Write([]byte{0})
	}
	return h.Sum64()
}

func (c *Collector) Eval(n int) {
	c.mu.Lock()
	c.evals += n
	c.mu.Unlock()
}

// Case counts one evaluation; if nontrivial, its hash joins the distinct set.
func (c *Collector) Case(hash uint64, nontrivial bool) {
	c.mu.Lock()
	c.evals++
	if nontrivial {
		c.nt[hash] = struct{}{}
	}
	c.mu.Unlock()
}

func (c *Collector) NonTrivial(hash uint64) {
	c.mu.Lock()
	c.nt[hash] = struct{}{}
	c.mu.Unlock()
}

func (c *Collector) Label(l string) {
	c.mu.Lock()
	c.labels[l]++
	c.mu.Unlock()
}

func (c *Collector) LabelN(l string, n int) {
	c.mu.Lock()
	c.labels[l] += n
	c.mu.Unlock()
}

func (c *Collector) Exclude(l string) {
	c.mu.Lock()
	c.excluded[l]++
	c.mu.Unlock()
}

// Sample keeps at most max samples per kind.
func (c *Collector) Sample(kind string, max int, v any) {
	c.mu.Lock()
	defer c.mu.Unlock()
	if c.sampleCnt[kind] >= max {
		return
	}
	c.sampleCnt[kind]++
	c.samples = append(c.samples, map[string]any{"kind": kind, "case": v})
}

func (c *Collector) Exhaustive(part string) {
	c.mu.Lock()
	c.exh = append(c.exh, part)
	c.mu.Unlock()
}

func (c *Collector) Note(n string) {
	c.mu.Lock()
	for _, x := range c.notes {
		if x == n {
			c.mu.Unlock()
			return
		}
	}
	c.notes = append(c.notes, n)
	c.mu.Unlock()
}

// IsKnown reports whether key names an open finding of this property and, if so,
// records the hit.
func (c *Collector) IsKnown(key, what string) bool {
	c.mu.Lock()
	defer c.mu.Unlock()
	if f, ok := c.open[key]; ok {
		if _, seen := c.known[key]; !seen {
			c.known[key] = f.What + " [e.g. " + what + "]"
		}
		return true
	}
	return false
}

// RecordViolation writes the replay file (overwriting: with rapid the last failing
// execution is the shrunk one). It returns the path.
func (c *Collector) RecordViolation(key, what string, replay any) string {
	c.mu.Lock()
	defer c.mu.Unlock()
	v := Violation{Property: c.id, Key: key, What: what, Replay: replay}
	b, _ := json.MarshalIndent(v, "", " ")
	p := filepath.Join(c.outDir, "violation.json")
	_ = os.WriteFile(p, b, 0o644)
	return p
}

func (c *Collector) Complete() {
	c.mu.Lock()
	c.completed = true
	c.mu.Unlock()
}

func (c *Collector) Flush() {
	c.mu.Lock()
	defer c.mu.Unlock()
	s := Shard{
		Property:    c.id,
		Shard:       c.shard,
		Evaluations: c.evals,
		Labels:      c.labels,
		Excluded:    c.excluded,
		Samples:     c.samples,
		Known:       c.known,
		Exhaustive:  c.exh,
		Notes:       c.notes,
		Completed:   c.completed,
	}
	for h := range c.nt {
		s.NonTrivial = append(s.NonTrivial, h)
	}
	sort.Slice(s.NonTrivial, func(i, j int) bool { return s.NonTrivial[i] < s.NonTrivial[j] })
	b, err := json.Marshal(s)
	if err != nil {
		panic(fmt.Sprintf("ev: cannot marshal shard: %v", err))
	}
	_ = os.WriteFile(filepath.Join(c.outDir, "shard.json"), b, 0o644)
}
