package ref

import (
	"fmt"
	"math"
	"sort"
	"strconv"
	"strings"

	"verifh/cfg"
)

// PkgNames maps fixture import paths to their package clause names ("" = current
// package, whose name is the configured one). Installed by the checks.
var PkgNames = map[string]string{}

// MV is the model's description of a value (mirrors the probe's JSON).
type MV struct {
	T      string
	S      string
	O      *MO
	L      []MV
	IsList bool
	C      bool // the container itself
}

// MO is the model's description of a fixture object. ID is a symbolic identity
// (compared with instance serial numbers modulo a bijection; "" = no identity).
type MO struct {
	Pkg    string
	Kind   string
	ID     string
	Origin string
	Args   []MV
	Fields map[string]MV
	Log    []MCall
	Parent *MV
}

type MCall struct {
	M    string
	Args []MV
}

// Exp is the expected result of one probe operation.
type Exp struct {
	V      *MV
	L      []MV
	IsList bool
	Err    string // expected substring of the error ("" = no error)
	Panic  bool
	Skip   bool // the model does not predict this operation
}

type svcDef struct {
	cfg    *cfg.Service
	marker string // OverrideService marker definition
	scope  string // scope of the marker definition ("" = default)
}

type paramDef struct {
	val     cfg.Val
	over    *MV // OverrideParam value
	isOver  bool
	chunks  []Chunk
	isStr   bool
	rawText string
}

// DI interprets an accepted configuration the way the documentation says the
// generated container behaves.
type DI struct {
	C        cfg.Config
	Pkg      string
	Type     string
	aliases  map[string]string
	funcs    map[string]string // function name -> "pkgPath\x00Symbol"
	svcs     map[string]*svcDef
	svcOrder []string
	params   map[string]*paramDef
	shared   map[string]MV
	pcache   map[string]MV
	bags     map[string]map[string]MV
	Env      map[string]*string
	nextID   int
	Counters map[string]int
	a        *Analysis
	depth    int
}

type diError struct{ msg string }

func (e *diError) Error() string { return e.msg }

func NewDI(c cfg.Config, env map[string]*string) *DI {
	d := &DI{C: c, Pkg: "main", Type: "Gontainer", aliases: map[string]string{}, funcs: map[string]string{},
		svcs: map[string]*svcDef{}, params: map[string]*paramDef{}, shared: map[string]MV{}, pcache: map[string]MV{},
		bags: map[string]map[string]MV{}, Env: env, Counters: map[string]int{}}
	if c.Meta.Pkg != nil {
		d.Pkg = *c.Meta.Pkg
	}
	if c.Meta.Type != nil {
		d.Type = *c.Meta.Type
	}
	for _, kv := range c.Meta.Imports {
		d.aliases[kv.K] = kv.V
	}
	d.a = Analyse(c)
	for _, kv := range c.Meta.Functions {
		if r, ok := FuncRef(kv.V); ok {
			d.funcs[kv.K] = d.ResolveImport(r.Import) + "\x00" + r.Name
		}
	}
	for i := range c.Services {
		s := &c.Services[i]
		d.svcs[s.Name] = &svcDef{cfg: s}
		d.svcOrder = append(d.svcOrder, s.Name)
	}
	for _, p := range c.Params {
		pd := &paramDef{val: p.Val, isStr: p.Val.IsStr(), rawText: p.Val.S}
		if pd.isStr {
			pd.chunks, _ = ParsePattern(p.Val.S, d.a.Funcs)
		}
		d.params[p.Name] = pd
	}
	return d
}

// ResolveImport is the alias rule of C14: quotes are stripped, "." is the current
// package, and an alias equal to the whole first path segment is replaced by its target.
func (d *DI) ResolveImport(spelled string) string {
	return ResolveImport(spelled, d.aliases)
}

func ResolveImport(spelled string, aliases map[string]string) string {
	p := strings.Trim(spelled, `"`)
	if p == "." || p == "" {
		return ""
	}
	first, rest, has := strings.Cut(p, "/")
	if target, ok := aliases[first]; ok {
		if has {
			return target + "/" + rest
		}
		return target
	}
	return p
}

func (d *DI) pkgName(path string) string {
	if path == "" {
		return d.Pkg
	}
	if n, ok := PkgNames[path]; ok {
		return n
	}
	parts := strings.Split(path, "/")
	return parts[len(parts)-1]
}

func pkgID(path string) string {
	if path == "" {
		return "."
	}
	return path
}

func (d *DI) newID(prefix string) string {
	d.nextID++
	return fmt.Sprintf("%s#%d", prefix, d.nextID)
}

// ---------------------------------------------------------------------------
// values

func fmtFloatG(f float64) string {
	switch {
	case math.IsNaN(f):
		return "NaN"
	case math.IsInf(f, 1):
		return "+Inf"
	case math.IsInf(f, -1):
		return "-Inf"
	case f == 0:
		return "0"
	}
	return strconv.FormatFloat(f, 'g', -1, 64)
}

// LitMV is the description of a YAML literal as a Go value.
func LitMV(v cfg.Val) MV {
	switch v.K {
	case "int":
		return MV{T: "int", S: strconv.FormatInt(v.I, 10)}
	case "uint":
		return MV{T: "uint64", S: strconv.FormatUint(v.U, 10)}
	case "float":
		return MV{T: "float64", S: fmtFloatG(v.Float64())}
	case "bool":
		return MV{T: "bool", S: strconv.FormatBool(v.B)}
	case "null":
		return MV{T: "nil"}
	}
	return MV{T: "string", S: strconv.Quote(v.S)}
}

func strMV(s string) MV { return MV{T: "string", S: strconv.Quote(s)} }

// rawOf recovers the Go value of a primitive description (for string casts).
func rawOf(v MV) (any, bool) {
	switch v.T {
	case "int":
		n, _ := strconv.ParseInt(v.S, 10, 64)
		return n, true
	case "uint64":
		n, _ := strconv.ParseUint(v.S, 10, 64)
		return n, true
	case "float64":
		switch v.S {
		case "NaN":
			return math.NaN(), true
		case "+Inf":
			return math.Inf(1), true
		case "-Inf":
			return math.Inf(-1), true
		}
		f, _ := strconv.ParseFloat(v.S, 64)
		return f, true
	case "bool":
		return v.S == "true", true
	case "nil":
		return nil, true
	case "string":
		s, err := strconv.Unquote(v.S)
		return s, err == nil
	}
	return nil, false
}

func (d *DI) typeString(path, kind string) string {
	n := d.pkgName(path)
	switch kind {
	case "Obj":
		return "*" + n + ".Obj"
	case "ObjV":
		return n + ".Obj"
	case "Val":
		return n + ".Val"
	case "ValP":
		return "*" + n + ".Val"
	}
	return n + "." + kind
}

func baseKind(kind string) string {
	switch kind {
	case "ObjV":
		return "Obj"
	case "ValP":
		return "Val"
	}
	return kind
}

// symbolValue describes the fixture symbol a value expression denotes.
func (d *DI) symbolValue(r SymRef) (MV, string, error) {
	path := d.ResolveImport(r.Import)
	pid := pkgID(path)
	n := d.pkgName(path)
	global := func(kind, origin string) (MV, string, error) {
		return MV{T: d.typeString(path, kind), O: &MO{Pkg: pid, Kind: baseKind(kind), ID: "global:" + pid + ":" + origin, Origin: origin}}, kind, nil
	}
	if r.Braces {
		kind := ""
		switch r.Name {
		case "Obj":
			kind = "ObjV"
			if r.Ptr == "&" {
				kind = "Obj"
			}
		case "Val":
			kind = "Val"
			if r.Ptr == "&" {
				kind = "ValP"
			}
		default:
			return MV{}, "", fmt.Errorf("unknown struct %s", r.Name)
		}
		return MV{T: d.typeString(path, kind), O: &MO{Pkg: pid, Kind: baseKind(kind), Origin: "zero"}}, kind, nil
	}
	switch r.Name {
	case "GlobalObj":
		if r.Ptr == "&" {
			return MV{}, "", fmt.Errorf("unsupported &GlobalObj")
		}
		return global("Obj", "GlobalObj")
	case "GlobalVal":
		if r.Ptr == "&" {
			return global("ValP", "GlobalVal")
		}
		return global("Val", "GlobalVal")
	case "Holder.Field":
		return global("Obj", "Holder.Field")
	case "Holder.Inner.Leaf":
		return global("Obj", "Holder.Inner.Leaf")
	case "NumVal":
		return MV{T: n + ".Num", O: &MO{Pkg: pid, Kind: "Num", Origin: "num", Args: []MV{{T: "int", S: "7"}}}}, "Num", nil
	case "ListVal":
		return MV{T: n + ".List", O: &MO{Pkg: pid, Kind: "List", Origin: "list", Args: []MV{strMV(pid), {T: "int", S: "1"}}}}, "List", nil
	case "FnVal":
		return MV{T: n + ".Fn", O: &MO{Pkg: pid, Kind: "Fn", Origin: "fn", Args: []MV{strMV(pid)}}}, "Fn", nil
	case "ID":
		return strMV(pid), "string", nil
	case "c", "s", "rootGontainer":
		// package-level variables of the fixture that are named like locals of the generated constructor
		if r.Ptr == "" {
			return global("Obj", r.Name)
		}
	}
	return MV{}, "", fmt.Errorf("unknown symbol %s", r.Name)
}

// ---------------------------------------------------------------------------
// parameters

func (d *DI) getParam(name string) (MV, error) {
	pd, ok := d.params[name]
	if !ok {
		return MV{}, &diError{"param does not exist"}
	}
	if v, ok := d.pcache[name]; ok {
		return v, nil
	}
	d.depth++
	defer func() { d.depth-- }()
	if d.depth > 200 {
		return MV{}, &diError{"recursion"}
	}
	var v MV
	var err error
	switch {
	case pd.isOver:
		v = *pd.over
	case !pd.isStr:
		v = LitMV(pd.val)
	default:
		v, err = d.evalPattern(pd.chunks)
	}
	if err != nil {
		return MV{}, err
	}
	d.pcache[name] = v
	return v, nil
}

func (d *DI) evalChunk(c Chunk) (MV, error) {
	switch c.Kind {
	case ChunkText:
		return strMV(c.Text), nil
	case ChunkPercent:
		return strMV("%"), nil
	case ChunkRef:
		return d.getParam(c.Name)
	case ChunkFunc:
		v, err := d.callFunc(c.Name, c.Args)
		if err == ErrUnpredicted {
			return MV{}, err
		}
		if err != nil {
			return MV{}, &diError{"cannot execute " + c.Raw + "\x00" + err.Error()} // NUL separates substrings that must all appear
		}
		return v, nil
	}
	return MV{}, &diError{"bad chunk"}
}

func (d *DI) evalPattern(chunks []Chunk) (MV, error) {
	if len(chunks) == 1 {
		return d.evalChunk(chunks[0])
	}
	var sb strings.Builder
	for _, c := range chunks {
		v, err := d.evalChunk(c)
		if err != nil {
			return MV{}, err
		}
		raw, ok := rawOf(v)
		if !ok {
			return MV{}, &diError{"type is not supported"}
		}
		s, err := CastToString(raw)
		if err != nil {
			return MV{}, &diError{err.Error()}
		}
		sb.WriteString(s)
	}
	return strMV(sb.String()), nil
}

// ParseGoLits parses a comma separated list of the Go expressions the generators emit as parameter-function
// arguments: ints, floats, booleans, nil, interpreted string literals, any of them in parentheses, and the
// conversions int(int literal), string(string literal), float64(number literal).
func ParseGoLits(s string) ([]MV, bool) {
	p := &litParser{s: s}
	p.ws()
	if p.i >= len(p.s) {
		return nil, true
	}
	var out []MV
	for {
		v, ok := p.expr()
		if !ok {
			return nil, false
		}
		out = append(out, v)
		p.ws()
		if p.i >= len(p.s) {
			return out, true
		}
		if p.s[p.i] != ',' {
			return nil, false
		}
		p.i++
		p.ws()
		if p.i >= len(p.s) {
			return nil, false // trailing comma: not generated
		}
	}
}

type litParser struct {
	s string
	i int
}

func (p *litParser) ws() {
	for p.i < len(p.s) && (p.s[p.i] == ' ' || p.s[p.i] == '\t') {
		p.i++
	}
}

func (p *litParser) expr() (MV, bool) {
	p.ws()
	if p.i >= len(p.s) {
		return MV{}, false
	}
	switch {
	case p.s[p.i] == '(':
		p.i++
		v, ok := p.expr()
		p.ws()
		if !ok || p.i >= len(p.s) || p.s[p.i] != ')' {
			return MV{}, false
		}
		p.i++
		return v, true
	case p.s[p.i] == '"':
		start := p.i
		p.i++
		for p.i < len(p.s) && p.s[p.i] != '"' {
			if p.s[p.i] == '\\' {
				p.i++
			}
			p.i++
		}
		if p.i >= len(p.s) {
			return MV{}, false
		}
		p.i++
		u, err := strconv.Unquote(p.s[start:p.i])
		if err != nil {
			return MV{}, false
		}
		return strMV(u), true
	}
	for _, conv := range []string{"int", "string", "float64"} {
		if strings.HasPrefix(p.s[p.i:], conv+"(") {
			p.i += len(conv) + 1
			v, ok := p.expr()
			p.ws()
			if !ok || p.i >= len(p.s) || p.s[p.i] != ')' {
				return MV{}, false
			}
			p.i++
			switch {
			case conv == "int" && v.T == "int", conv == "string" && v.T == "string", conv == "float64" && v.T == "float64":
				return v, true
			case conv == "float64" && v.T == "int":
				n, _ := strconv.ParseInt(v.S, 10, 64)
				return MV{T: "float64", S: fmtFloatG(float64(n))}, true
			}
			return MV{}, false
		}
	}
	start := p.i
	for p.i < len(p.s) && p.s[p.i] != ',' && p.s[p.i] != ')' && p.s[p.i] != ' ' && p.s[p.i] != '\t' {
		p.i++
	}
	tok := p.s[start:p.i]
	switch {
	case tok == "true" || tok == "false":
		return MV{T: "bool", S: tok}, true
	case tok == "nil":
		return MV{T: "nil"}, true
	}
	if n, err := strconv.ParseInt(tok, 10, 64); err == nil {
		return MV{T: "int", S: strconv.FormatInt(n, 10)}, true
	}
	if f, err := strconv.ParseFloat(tok, 64); err == nil && strings.ContainsAny(tok, ".eE") {
		return MV{T: "float64", S: fmtFloatG(f)}, true
	}
	return MV{}, false
}

// ErrUnpredicted marks results the model deliberately does not predict.
var ErrUnpredicted = &diError{"unpredicted"}

func (d *DI) callFunc(name, argText string) (MV, error) {
	args, ok := ParseGoLits(argText)
	if !ok {
		return MV{}, ErrUnpredicted
	}
	str := func(i int) (string, bool) {
		if i >= len(args) || args[i].T != "string" {
			return "", false
		}
		s, err := strconv.Unquote(args[i].S)
		return s, err == nil
	}
	target, user := d.funcs[name]
	if !user {
		switch name {
		case "env", "envInt":
			key, ok := str(0)
			if !ok {
				return MV{}, ErrUnpredicted
			}
			val, set := d.Env[key]
			if !set || val == nil {
				if len(args) > 1 {
					return args[1], nil
				}
				return MV{}, &diError{fmt.Sprintf("environment variable %q does not exist", key)}
			}
			if name == "env" {
				return strMV(*val), nil
			}
			n, err := strconv.Atoi(*val)
			if err != nil {
				return MV{}, &diError{"cannot cast env(" + strconv.Quote(key) + ") to int"}
			}
			return MV{T: "int", S: strconv.Itoa(n)}, nil
		case "todo":
			if m, ok := str(0); ok {
				return MV{}, &diError{m + "\x01"} // \x01: nothing follows the message (further arguments are no part of it)
			}
			return MV{}, &diError{"parameter todo"}
		}
		return MV{}, ErrUnpredicted
	}
	parts := strings.SplitN(target, "\x00", 2)
	pid := pkgID(parts[0])
	switch parts[1] {
	case "Echo":
		d.Counters[pid+".Echo"]++
		if len(args) == 1 {
			return args[0], nil
		}
		return strMV(pid), nil
	case "Fail":
		d.Counters[pid+".Fail"]++
		return MV{}, &diError{"function failed in " + pid}
	case "Count":
		n, ok := str(0)
		if !ok || len(args) != 2 {
			return MV{}, ErrUnpredicted
		}
		d.Counters["fn:"+n]++
		return args[1], nil
	case "Two":
		d.Counters[pid+".Two"]++
		if len(args) != 1 {
			return MV{}, ErrUnpredicted
		}
		return args[0], nil
	}
	return MV{}, ErrUnpredicted
}

// ---------------------------------------------------------------------------
// services

// scopes returns the effective scope of every current service definition.
func (d *DI) effectiveScope(name string) string {
	def := d.svcs[name]
	if def == nil {
		return "shared"
	}
	if def.marker != "" {
		if def.scope != "" {
			return def.scope
		}
		return d.defaultScope(name)
	}
	if def.cfg.IsTodo() {
		return "shared" // never constructed successfully, never cached
	}
	if def.cfg.Scope != nil {
		return *def.cfg.Scope
	}
	return d.defaultScope(name)
}

// EffectiveScope is the scope of name under the current definitions (after overrides).
func (d *DI) EffectiveScope(name string) string { return d.effectiveScope(name) }

// reach computes the services reachable from name under the current definitions.
func (d *DI) reach(name string) map[string]bool {
	seen := map[string]bool{}
	var visitSvc func(n string)
	visitArgs := func(args []cfg.Val) {
		for _, v := range args {
			if !v.IsStr() {
				continue
			}
			kind, payload, ok := ClassifyArg(v.S)
			if !ok {
				continue
			}
			switch kind {
			case ArgService:
				visitSvc(payload)
			case ArgTagged:
				for _, sn := range d.svcOrder {
					if d.hasTag(sn, payload) {
						visitSvc(sn)
					}
				}
			}
		}
	}
	visitSvc = func(n string) {
		if seen[n] {
			return
		}
		seen[n] = true
		def := d.svcs[n]
		if def == nil || def.marker != "" || def.cfg.IsTodo() {
			return
		}
		visitArgs(def.cfg.AllArgs())
		for _, t := range def.cfg.Tags {
			for _, dec := range d.C.Decorators {
				if dec.Tag == t.Name {
					visitArgs(dec.Args)
				}
			}
		}
	}
	def := d.svcs[name]
	if def == nil || def.marker != "" || def.cfg.IsTodo() {
		return seen
	}
	visitArgs(def.cfg.AllArgs())
	for _, t := range def.cfg.Tags {
		for _, dec := range d.C.Decorators {
			if dec.Tag == t.Name {
				visitArgs(dec.Args)
			}
		}
	}
	return seen
}

func (d *DI) hasTag(svc, tag string) bool {
	def := d.svcs[svc]
	if def == nil || def.marker != "" || def.cfg.IsTodo() {
		return false
	}
	for _, t := range def.cfg.Tags {
		if t.Name == tag {
			return true
		}
	}
	return false
}

func (d *DI) defaultScope(name string) string {
	for n := range d.reach(name) {
		def := d.svcs[n]
		if def != nil && def.marker == "" && !def.cfg.IsTodo() && def.cfg.Scope != nil && *def.cfg.Scope == "contextual" {
			return "contextual"
		}
		if def != nil && def.marker != "" && def.scope == "contextual" {
			return "contextual"
		}
	}
	return "shared"
}

func (d *DI) resolveArg(v cfg.Val, bag map[string]MV) (MV, error) {
	if !v.IsStr() {
		return LitMV(v), nil
	}
	kind, payload, ok := ClassifyArg(v.S)
	if !ok {
		return MV{}, &diError{"invalid argument"}
	}
	switch kind {
	case ArgValue:
		r, _ := ValueRef(payload)
		mv, _, err := d.symbolValue(r)
		if err != nil {
			return MV{}, ErrUnpredicted
		}
		return mv, nil
	case ArgService:
		return d.get(payload, bag)
	case ArgTagged:
		l, err := d.tagged(payload, bag)
		if err != nil {
			return MV{}, err
		}
		return MV{T: "[]interface {}", S: fmt.Sprintf("len=%d", len(l)), L: l, IsList: true}, nil
	case ArgGontainer:
		return MV{T: "*" + d.Pkg + "." + d.Type, C: true}, nil
	}
	chunks, errs := ParsePattern(v.S, d.a.Funcs)
	if len(errs) > 0 {
		return MV{}, &diError{"bad pattern"}
	}
	return d.evalPattern(chunks)
}

func (d *DI) resolveArgs(vs []cfg.Val, bag map[string]MV) ([]MV, error) {
	out := make([]MV, len(vs))
	var first error
	for i, v := range vs {
		mv, err := d.resolveArg(v, bag)
		if err != nil && first == nil {
			first = err
		}
		out[i] = mv
	}
	if len(out) == 0 {
		out = nil
	}
	return out, first
}

func (d *DI) tagged(tag string, bag map[string]MV) ([]MV, error) {
	type ent struct {
		name string
		prio int
	}
	var es []ent
	for _, n := range d.svcOrder {
		def := d.svcs[n]
		if def == nil || def.marker != "" || def.cfg.IsTodo() {
			continue
		}
		for _, t := range def.cfg.Tags {
			if t.Name == tag {
				es = append(es, ent{n, t.Prio})
			}
		}
	}
	sort.SliceStable(es, func(i, j int) bool {
		if es[i].prio != es[j].prio {
			return es[i].prio > es[j].prio
		}
		return es[i].name < es[j].name
	})
	out := make([]MV, 0, len(es))
	for _, e := range es {
		v, err := d.get(e.name, bag)
		if err != nil {
			return nil, err
		}
		out = append(out, v)
	}
	return out, nil
}

func (d *DI) get(name string, bag map[string]MV) (MV, error) {
	def, ok := d.svcs[name]
	if !ok {
		return MV{}, &diError{"service does not exist"}
	}
	d.depth++
	defer func() { d.depth-- }()
	if d.depth > 200 {
		return MV{}, &diError{"recursion"}
	}
	scope := d.effectiveScope(name)
	var cache map[string]MV
	switch scope {
	case "shared":
		cache = d.shared
	case "contextual":
		cache = bag
	}
	if cache != nil {
		if v, ok := cache[name]; ok {
			return v, nil
		}
	}
	v, err := d.construct(name, def, bag)
	if err != nil {
		return MV{}, err
	}
	if cache != nil {
		cache[name] = v
	}
	return v, nil
}

func (d *DI) construct(name string, def *svcDef, bag map[string]MV) (MV, error) {
	if def.marker != "" {
		return MV{T: "*rec.Marker", O: &MO{Pkg: "rec", Kind: "Marker", ID: d.newID("marker"), Origin: "marker:" + def.marker}}, nil
	}
	s := def.cfg
	if s.IsTodo() {
		return MV{}, &diError{"service todo"}
	}
	var cur MV
	kind := ""
	switch {
	case s.Ctor != nil:
		r, _ := FuncRef(*s.Ctor)
		path := d.ResolveImport(r.Import)
		pid := pkgID(path)
		args, err := d.resolveArgs(s.Args, bag)
		if err != nil {
			return MV{}, err
		}
		switch r.Name {
		case "NewObj", "NewObjE":
			kind = "Obj"
		case "NewVal":
			kind = "Val"
		case "NewFail":
			d.Counters[pid+".NewFail"]++
			return MV{}, &diError{"constructor failed in " + pid}
		case "dependencyService", "dependencyValue", "dependencyTag", "dependencyProvider", "newService", "concatenateChunks",
			"paramTodo", "getEnv", "getEnvInt", "getParam", "callProvider":
			kind = "Obj" // fixture constructors that are named like locals of the generated constructor
		default:
			return MV{}, ErrUnpredicted
		}
		d.Counters[pid+"."+r.Name]++
		cur = MV{T: d.typeString(path, kind), O: &MO{Pkg: pid, Kind: baseKind(kind), ID: d.newID(name), Origin: r.Name, Args: args}}
	case s.Value != nil:
		r, _ := ValueRef(*s.Value)
		mv, k, err := d.symbolValue(r)
		if err != nil {
			return MV{}, ErrUnpredicted
		}
		cur, kind = cloneMV(mv), k
	case s.Type != nil:
		r, _ := TypeRef(*s.Type)
		path := d.ResolveImport(r.Import)
		pid := pkgID(path)
		switch {
		case r.Ptr == "" && r.Name == "Obj":
			kind = "ObjV"
			cur = MV{T: d.typeString(path, kind), O: &MO{Pkg: pid, Kind: "Obj", Origin: "zero"}}
		case r.Ptr == "" && r.Name == "Val":
			kind = "Val"
			cur = MV{T: d.typeString(path, kind), O: &MO{Pkg: pid, Kind: "Val", Origin: "zero"}}
		case r.Ptr == "" && r.Name == "Num":
			kind = "Num"
			cur = MV{T: d.pkgName(path) + ".Num", O: &MO{Pkg: pid, Kind: "Num", Origin: "num", Args: []MV{{T: "int", S: "0"}}}}
		default:
			return MV{}, ErrUnpredicted
		}
	}
	isStruct := kind == "Obj" || kind == "ObjV" || kind == "Val" || kind == "ValP"
	// fields, in name order
	fs := append([]cfg.Field(nil), s.Fields...)
	sort.SliceStable(fs, func(i, j int) bool { return fs[i].Name < fs[j].Name })
	var ferr error
	for _, f := range fs {
		if !isStruct {
			return MV{}, ErrUnpredicted
		}
		v, err := d.resolveArg(f.Val, bag)
		if err != nil {
			if ferr == nil {
				ferr = err
			}
			continue
		}
		if cur.O.Fields == nil {
			cur.O.Fields = map[string]MV{}
		}
		if v.T == "nil" {
			delete(cur.O.Fields, f.Name) // a nil field is not printed
			continue
		}
		cur.O.Fields[f.Name] = v
	}
	if ferr != nil {
		return MV{}, ferr
	}
	// calls, in order
	var cerr error
	for _, c := range s.Calls {
		if !isStruct {
			return MV{}, ErrUnpredicted
		}
		args, err := d.resolveArgs(c.Args, bag)
		if err != nil {
			if cerr == nil {
				cerr = err
			}
			continue
		}
		if c.Wither {
			prev := cur
			nk := "Obj"
			if kind == "Val" || kind == "ValP" {
				nk = "Val"
			}
			path := unPkgID(prev.O.Pkg)
			// the wither's receiver is what the new object links to: *Obj for Obj services
			// (pointer receiver), a Val copy for Val services (value receiver)
			prev.T = d.typeString(path, nk)
			cur = MV{T: d.typeString(path, nk), O: &MO{Pkg: prev.O.Pkg, Kind: baseKind(nk), ID: d.newID(name + ":" + c.Method), Origin: c.Method, Args: args, Parent: &prev}}
			kind = nk
			continue
		}
		cur.O.Log = append(cur.O.Log, MCall{M: c.Method, Args: args})
	}
	if cerr != nil {
		return MV{}, cerr
	}
	// decorators, in declaration order, for every tag the service carries
	for _, dec := range d.C.Decorators {
		carries := false
		for _, t := range s.Tags {
			if t.Name == dec.Tag {
				carries = true
			}
		}
		if !carries {
			continue
		}
		r, _ := FuncRef(dec.Fn)
		if r.Name != "Decorate" {
			return MV{}, ErrUnpredicted
		}
		path := d.ResolveImport(r.Import)
		pid := pkgID(path)
		args, err := d.resolveArgs(dec.Args, bag)
		if err != nil {
			return MV{}, err
		}
		d.Counters[pid+".Decorate"]++
		prev := cur
		nk := "Obj"
		if prev.O != nil && prev.O.Kind == "Val" && !strings.HasPrefix(prev.T, "*") && prev.O.Pkg == pid {
			nk = "Val"
		}
		all := append([]MV{strMV(dec.Tag), strMV(name)}, args...)
		cur = MV{T: d.typeString(path, nk), O: &MO{Pkg: pid, Kind: baseKind(nk), ID: d.newID(name + ":decorated"), Origin: "Decorate", Args: all, Parent: &prev}}
		kind = nk
		isStruct = true
	}
	return cur, nil
}

func unPkgID(id string) string {
	if id == "." {
		return ""
	}
	return id
}

func cloneMV(v MV) MV {
	c := v
	if v.O != nil {
		o := *v.O
		o.Args = append([]MV(nil), v.O.Args...)
		o.Log = append([]MCall(nil), v.O.Log...)
		if v.O.Fields != nil {
			o.Fields = map[string]MV{}
			for k, x := range v.O.Fields {
				o.Fields[k] = x
			}
		}
		c.O = &o
	}
	return c
}

// ---------------------------------------------------------------------------
// probe operations

// ProbeOp is the model-side view of a probe operation.
type ProbeOp struct {
	Op    string
	ID    string
	Ctx   string
	Val   *cfg.Val // overrideParam
	Str   string   // overrideService marker
	Scope string   // overrideService: scope of the overriding definition ("" = default)
}

func (d *DI) bagFor(ctx string) map[string]MV {
	if ctx == "" {
		return map[string]MV{}
	}
	if b, ok := d.bags[ctx]; ok {
		return b
	}
	b := map[string]MV{}
	d.bags[ctx] = b
	return b
}

func errExp(err error) Exp {
	if err == ErrUnpredicted {
		return Exp{Skip: true}
	}
	msg := err.Error()
	return Exp{Err: msg}
}

// Exec predicts the result of one operation and updates the model state.
func (d *DI) Exec(op ProbeOp) Exp {
	d.depth = 0
	switch op.Op {
	case "get":
		v, err := d.get(op.ID, d.bagFor(op.Ctx))
		if err != nil {
			return errExp(err)
		}
		return Exp{V: &v}
	case "tagged":
		l, err := d.tagged(op.ID, d.bagFor(op.Ctx))
		if err != nil {
			e := errExp(err)
			e.IsList = true
			return e
		}
		return Exp{L: l, IsList: true}
	case "param":
		v, err := d.getParam(op.ID)
		if err != nil {
			return errExp(err)
		}
		return Exp{V: &v}
	case "overrideParam":
		mv := LitMV(*op.Val)
		d.params[op.ID] = &paramDef{isOver: true, over: &mv}
		delete(d.pcache, op.ID)
		return Exp{}
	case "overrideService":
		if _, ok := d.svcs[op.ID]; !ok {
			d.svcOrder = append(d.svcOrder, op.ID)
		}
		d.svcs[op.ID] = &svcDef{marker: op.Str, scope: op.Scope}
		delete(d.shared, op.ID)
		return Exp{}
	case "circular":
		return Exp{}
	}
	return Exp{Skip: true}
}

// GetterInfo describes the expected generated methods of a service.
type GetterInfo struct {
	Service string
	Getter  string
	Must    bool
	Type    string // fully qualified type string as reflection prints it
}

// Getters lists the expected getters (C13's rule).
func (d *DI) Getters() []GetterInfo {
	var out []GetterInfo
	dm := d.C.Meta.DefaultMust != nil && *d.C.Meta.DefaultMust
	for _, s := range d.C.Services {
		if s.IsTodo() || s.Getter == nil {
			continue
		}
		must := dm
		if s.Must != nil {
			must = *s.Must
		}
		t := "interface{}"
		if s.Type != nil {
			r, _ := TypeRef(*s.Type)
			path := d.ResolveImport(r.Import)
			full := path
			if path == "" {
				full = "fx/g/?" // the container's own package; the caller substitutes the real path
			}
			name := r.Name
			if a, ok := LocalAliases[name]; ok && path == "" {
				name = a
			}
			t = r.Ptr + full + "." + name
			if r.Import == "" && isPredeclared(r.Name) {
				t = r.Ptr + r.Name
			}
		}
		out = append(out, GetterInfo{Service: s.Name, Getter: *s.Getter, Must: must, Type: t})
	}
	return out
}

// LocalAliases: alias declarations some hand-built cases add to the container's own package (LocalAliasSource);
// their names are identifiers the getter templates use for parameters, results and locals (c and s are variables of
// the local catalog already).
var LocalAliases = map[string]string{"ctx": "Obj", "err": "Obj", "result": "Obj", "r": "Obj"}

// LocalAliasSource declares LocalAliases.
const LocalAliasSource = "type (\n\tctx = Obj\n\terr = Obj\n\tresult = Obj\n\tr = Obj\n)\n"

func isPredeclared(n string) bool {
	switch n {
	case "int", "string", "bool", "float64", "error", "uint64", "any", "byte", "rune", "uint", "int64":
		return true
	}
	return false
}
