package ref

import (
	"fmt"
	"sort"
	"strconv"

	"verifh/cfg"
)

func formatFloatPlain(f float64) string { return strconv.FormatFloat(f, 'f', -1, 64) }

// BuiltinFuncs are always registered.
var BuiltinFuncs = []string{"env", "envInt", "todo"}

// Fact is one expected diagnostic reduced to what it must name.
type Fact struct {
	Class string // input, token, arg, must-getter, missing-param, missing-service, scope, cycle
	A     string
	B     string
}

func (f Fact) String() string { return f.Class + "|" + f.A + "|" + f.B }

// Analysis is everything the reference model derives from a (merged) configuration.
type Analysis struct {
	C     cfg.Config
	Funcs map[string]bool

	InputFacts []Fact // violations of the input grammar (all of them)
	ParamFacts []Fact // token errors in parameters
	SvcFacts   []Fact // argument / must-getter errors in services
	DecFacts   []Fact // argument errors in decorators

	// populated when the compile stage is expected to pass
	ParamChunks map[string][]Chunk // string parameters only
	Graph       *Graph
	MissingP    []Fact
	MissingS    []Fact
	ScopeFacts  []Fact
	Cyclic      bool
}

// ArgInfo is a classified argument.
type ArgInfo struct {
	Val    cfg.Val
	Kind   ArgKind
	Name   string  // service / tag name
	Expr   string  // !value expression
	Chunks []Chunk // pattern
}

// AnalyseArg classifies one argument of a service or decorator.
func (a *Analysis) AnalyseArg(v cfg.Val) (ArgInfo, []*PatternError, bool) {
	if !v.IsStr() {
		return ArgInfo{Val: v}, nil, true
	}
	kind, payload, ok := ClassifyArg(v.S)
	info := ArgInfo{Val: v, Kind: kind}
	switch kind {
	case ArgValue:
		info.Expr = payload
		return info, nil, ok
	case ArgService, ArgTagged:
		info.Name = payload
		return info, nil, ok
	case ArgGontainer:
		return info, nil, true
	}
	chunks, errs := ParsePattern(v.S, a.Funcs)
	info.Chunks = chunks
	return info, errs, len(errs) == 0
}

func sortedImports(m cfg.Meta) []cfg.KV {
	r := append([]cfg.KV(nil), m.Imports...)
	sort.SliceStable(r, func(i, j int) bool { return r[i].K < r[j].K })
	return r
}

var reservedGetters = map[string]bool{}

// SetReservedGetters installs the method and field names of the embedded runtime
// container (obtained by the caller through reflection over the pinned runtime).
func SetReservedGetters(names []string) {
	reservedGetters = map[string]bool{}
	for _, n := range names {
		reservedGetters[n] = true
	}
}

func hasPrefix(s, p string) bool { return len(s) >= len(p) && s[:len(p)] == p }
func hasSuffix(s, p string) bool { return len(s) >= len(p) && s[len(s)-len(p):] == p }

// Analyse runs the whole reference analysis on a merged configuration.
func Analyse(c cfg.Config) *Analysis {
	a := &Analysis{C: c, Funcs: map[string]bool{}}
	for _, f := range BuiltinFuncs {
		a.Funcs[f] = true
	}
	for _, kv := range c.Meta.Functions {
		a.Funcs[kv.K] = true
	}
	a.input()
	if len(a.InputFacts) > 0 {
		return a
	}
	a.compile()
	if len(a.ParamFacts)+len(a.SvcFacts)+len(a.DecFacts) > 0 {
		return a
	}
	a.output()
	return a
}

func (a *Analysis) in(key, attr string) {
	a.InputFacts = append(a.InputFacts, Fact{Class: "input", A: key, B: attr})
}

func (a *Analysis) input() {
	c := a.C
	m := c.Meta
	if m.Pkg != nil && !GoIdent(*m.Pkg) {
		a.in("meta", "pkg")
	}
	if m.Type != nil && !GoIdent(*m.Type) {
		a.in("meta", "container_type")
	}
	if m.Ctor != nil && !GoIdent(*m.Ctor) {
		a.in("meta", "container_constructor")
	}
	for _, kv := range m.Imports {
		if !ImportRef(kv.V) {
			a.in("meta", "imports:import:"+kv.V)
		}
		if !YamlName(kv.K) {
			a.in("meta", "imports:alias:"+kv.K)
		}
	}
	for _, kv := range m.Functions {
		if !GoIdent(kv.K) {
			a.in("meta", "functions:function:"+kv.K)
		}
		if _, ok := FuncRef(kv.V); !ok {
			a.in("meta", "functions:gofunction:"+kv.V)
		}
	}
	for _, p := range c.Params {
		if !YamlName(p.Name) {
			a.in("param:"+p.Name, "name")
		}
	}
	getterOwners := map[string][]string{}
	for _, s := range c.Services {
		key := "service:" + s.Name
		if !YamlName(s.Name) {
			a.in(key, "name")
		}
		if s.IsTodo() {
			continue
		}
		if s.Getter != nil {
			getterOwners[*s.Getter] = append(getterOwners[*s.Getter], s.Name)
		}
		if s.Ctor == nil && s.Value == nil && s.Type == nil {
			a.in(key, "creation")
		}
		if s.Ctor != nil && s.Value != nil {
			a.in(key, "creation")
		}
		if len(s.Args) > 0 && s.Ctor == nil {
			a.in(key, "creation")
		}
		if s.Ctor != nil {
			if _, ok := FuncRef(*s.Ctor); !ok {
				a.in(key, "constructor")
			}
		}
		if s.Getter != nil {
			g := *s.Getter
			if reservedGetters[g] || hasPrefix(g, "Must") || hasSuffix(g, "InContext") || !GoIdent(g) {
				a.in(key, "getter")
			}
		}
		if s.Type != nil {
			if _, ok := TypeRef(*s.Type); !ok {
				a.in(key, "type")
			}
		}
		if s.Value != nil {
			if _, ok := ValueRef(*s.Value); !ok {
				a.in(key, "value")
			}
		}
		for _, cl := range s.Calls {
			if !GoIdent(cl.Method) {
				a.in(key, "calls")
			}
		}
		for _, f := range s.Fields {
			if !GoIdent(f.Name) {
				a.in(key, "fields")
			}
		}
		seen := map[string]int{}
		for _, t := range s.Tags {
			if !YamlName(t.Name) {
				a.in(key, "tags")
			}
			seen[t.Name]++
		}
		for _, n := range seen {
			if n > 1 {
				a.in(key, "tags")
			}
		}
	}
	// generated methods never collide with each other: equal getters on two services
	for g, owners := range getterOwners {
		if len(owners) > 1 && GoIdent(g) {
			for _, o := range owners {
				a.in("service:"+o, "getter")
			}
		}
	}
	for i, d := range c.Decorators {
		key := "decorator:" + strconv.Itoa(i)
		if !DecoratorTag(d.Tag) {
			a.in(key, "tag")
		}
		if _, ok := FuncRef(d.Fn); !ok {
			a.in(key, "method")
		}
	}
	sort.SliceStable(a.InputFacts, func(i, j int) bool { return a.InputFacts[i].String() < a.InputFacts[j].String() })
}

func (a *Analysis) compile() {
	c := a.C
	a.ParamChunks = map[string][]Chunk{}
	for _, p := range c.Params {
		if !p.Val.IsStr() {
			continue
		}
		chunks, errs := ParsePattern(p.Val.S, a.Funcs)
		if len(errs) > 0 {
			a.ParamFacts = append(a.ParamFacts, Fact{Class: "token", A: p.Name})
			continue
		}
		a.ParamChunks[p.Name] = chunks
	}
	if len(a.ParamFacts) > 0 {
		return
	}
	for _, s := range c.Services {
		if s.IsTodo() {
			continue
		}
		bad := false
		for _, v := range s.AllArgs() {
			if _, _, ok := a.AnalyseArg(v); !ok {
				bad = true
			}
		}
		if s.Getter == nil && s.Must != nil && *s.Must {
			bad = true
		}
		if bad {
			a.SvcFacts = append(a.SvcFacts, Fact{Class: "arg", A: s.Name})
		}
	}
	if len(a.SvcFacts) > 0 {
		return
	}
	for i, d := range c.Decorators {
		for _, v := range d.Args {
			if _, _, ok := a.AnalyseArg(v); !ok {
				a.DecFacts = append(a.DecFacts, Fact{Class: "arg", A: strconv.Itoa(i)})
				break
			}
		}
	}
}

// ---------------------------------------------------------------------------
// dependency graph, references, scopes

type Graph struct {
	Nodes []string
	idx   map[string]int
	Adj   [][]int
}

func NewGraph() *Graph { return &Graph{idx: map[string]int{}} }

func (g *Graph) Node(n string) int {
	if i, ok := g.idx[n]; ok {
		return i
	}
	i := len(g.Nodes)
	g.idx[n] = i
	g.Nodes = append(g.Nodes, n)
	g.Adj = append(g.Adj, nil)
	return i
}

func (g *Graph) Has(n string) bool { _, ok := g.idx[n]; return ok }

func (g *Graph) Edge(from, to string) {
	f, t := g.Node(from), g.Node(to)
	for _, x := range g.Adj[f] {
		if x == t {
			return
		}
	}
	g.Adj[f] = append(g.Adj[f], t)
}

func (g *Graph) HasEdge(from, to string) bool {
	f, ok1 := g.idx[from]
	t, ok2 := g.idx[to]
	if !ok1 || !ok2 {
		return false
	}
	for _, x := range g.Adj[f] {
		if x == t {
			return true
		}
	}
	return false
}

// Reach returns the set of nodes reachable from n through at least one edge.
func (g *Graph) Reach(n string) map[string]bool {
	r := map[string]bool{}
	s, ok := g.idx[n]
	if !ok {
		return r
	}
	var stack []int
	stack = append(stack, g.Adj[s]...)
	seen := map[int]bool{}
	for len(stack) > 0 {
		x := stack[len(stack)-1]
		stack = stack[:len(stack)-1]
		if seen[x] {
			continue
		}
		seen[x] = true
		r[g.Nodes[x]] = true
		stack = append(stack, g.Adj[x]...)
	}
	return r
}

// SCCs returns the strongly connected components (Tarjan).
func (g *Graph) SCCs() [][]int {
	n := len(g.Nodes)
	index := make([]int, n)
	low := make([]int, n)
	on := make([]bool, n)
	for i := range index {
		index[i] = -1
	}
	var stack []int
	var res [][]int
	counter := 0
	var strong func(v int)
	strong = func(v int) {
		index[v], low[v] = counter, counter
		counter++
		stack = append(stack, v)
		on[v] = true
		for _, w := range g.Adj[v] {
			if index[w] < 0 {
				strong(w)
				if low[w] < low[v] {
					low[v] = low[w]
				}
			} else if on[w] && index[w] < low[v] {
				low[v] = index[w]
			}
		}
		if low[v] == index[v] {
			var comp []int
			for {
				w := stack[len(stack)-1]
				stack = stack[:len(stack)-1]
				on[w] = false
				comp = append(comp, w)
				if w == v {
					break
				}
			}
			res = append(res, comp)
		}
	}
	for v := 0; v < n; v++ {
		if index[v] < 0 {
			strong(v)
		}
	}
	return res
}

// OnCycle returns the names of the nodes that lie on some cycle, and the size of
// the largest non-trivial strongly connected component.
func (g *Graph) OnCycle() (map[string]bool, int) {
	r := map[string]bool{}
	largest := 0
	for _, comp := range g.SCCs() {
		if len(comp) > 1 {
			if len(comp) > largest {
				largest = len(comp)
			}
			for _, v := range comp {
				r[g.Nodes[v]] = true
			}
			continue
		}
		v := comp[0]
		for _, w := range g.Adj[v] {
			if w == v {
				r[g.Nodes[v]] = true
				if largest < 1 {
					largest = 1
				}
			}
		}
	}
	return r, largest
}

func SvcNode(n string) string   { return "@" + n }
func ParamNode(n string) string { return "%" + n + "%" }
func TagNode(n string) string   { return "!tagged " + n }
func DecNode(i int) string      { return fmt.Sprintf("decorator(#%d)", i) }
func DecoratedNode(t string) string {
	return "decorate(!tagged " + t + ")"
}

func (a *Analysis) output() {
	c := a.C
	g := NewGraph()
	a.Graph = g
	declaredP := map[string]bool{}
	declaredS := map[string]bool{}
	for _, p := range c.Params {
		declaredP[p.Name] = true
		g.Node(ParamNode(p.Name))
	}
	for _, s := range c.Services {
		declaredS[s.Name] = true
		g.Node(SvcNode(s.Name))
	}
	// parameters
	for _, p := range c.Params {
		for _, r := range RefsOf(a.ParamChunks[p.Name]) {
			g.Edge(ParamNode(p.Name), ParamNode(r))
			if !declaredP[r] {
				a.MissingP = append(a.MissingP, Fact{"missing-param", "%" + p.Name + "%", r})
			}
		}
	}
	// services
	for _, s := range c.Services {
		if s.IsTodo() {
			continue
		}
		from := SvcNode(s.Name)
		for _, t := range s.Tags {
			g.Edge(TagNode(t.Name), from)
			g.Edge(from, DecoratedNode(t.Name))
		}
		for _, v := range s.AllArgs() {
			info, _, _ := a.AnalyseArg(v)
			if !v.IsStr() {
				continue
			}
			switch info.Kind {
			case ArgService:
				g.Edge(from, SvcNode(info.Name))
				if !declaredS[info.Name] {
					a.MissingS = append(a.MissingS, Fact{"missing-service", s.Name, info.Name})
				}
			case ArgTagged:
				g.Edge(from, TagNode(info.Name))
			case ArgPattern:
				for _, r := range RefsOf(info.Chunks) {
					g.Edge(from, ParamNode(r))
					if !declaredP[r] {
						a.MissingP = append(a.MissingP, Fact{"missing-param", "@" + s.Name, r})
					}
				}
			}
		}
	}
	for i, d := range c.Decorators {
		dn := DecNode(i)
		g.Edge(DecoratedNode(d.Tag), dn)
		for _, v := range d.Args {
			if !v.IsStr() {
				continue
			}
			info, _, _ := a.AnalyseArg(v)
			switch info.Kind {
			case ArgService:
				g.Edge(dn, SvcNode(info.Name))
				if !declaredS[info.Name] {
					a.MissingS = append(a.MissingS, Fact{"missing-service", "decorator#" + strconv.Itoa(i), info.Name})
				}
			case ArgTagged:
				g.Edge(dn, TagNode(info.Name))
			case ArgPattern:
				for _, r := range RefsOf(info.Chunks) {
					g.Edge(dn, ParamNode(r))
					if !declaredP[r] {
						a.MissingP = append(a.MissingP, Fact{"missing-param", "decorator#" + strconv.Itoa(i), r})
					}
				}
			}
		}
	}
	on, _ := g.OnCycle()
	a.Cyclic = len(on) > 0
	// scopes
	// (a placeholder service keeps its declared scope for this rule: a shared service must not depend on a
	// contextual placeholder either; at run time placeholders carry no scope, see EffectiveScopes)
	scope := map[string]string{}
	for _, s := range c.Services {
		if s.Scope != nil {
			scope[s.Name] = *s.Scope
		}
	}
	for _, s := range c.Services {
		if scope[s.Name] != "shared" {
			continue
		}
		reach := g.Reach(SvcNode(s.Name))
		var deps []string
		for _, t := range c.Services {
			if reach[SvcNode(t.Name)] && scope[t.Name] == "contextual" {
				deps = append(deps, t.Name)
			}
		}
		sort.Strings(deps)
		for _, d := range deps {
			a.ScopeFacts = append(a.ScopeFacts, Fact{"scope", s.Name, d})
		}
	}
}

// Stage names the first failing stage (or "accept").
func (a *Analysis) Stage(ignoreParams, ignoreServices bool) string {
	switch {
	case len(a.InputFacts) > 0:
		return "input"
	case len(a.ParamFacts) > 0:
		return "params"
	case len(a.SvcFacts) > 0:
		return "services"
	case len(a.DecFacts) > 0:
		return "decorators"
	}
	if len(a.ScopeFacts) > 0 || a.Cyclic || (!ignoreParams && len(a.MissingP) > 0) || (!ignoreServices && len(a.MissingS) > 0) {
		return "output"
	}
	return "accept"
}

// EffectiveScopes resolves the scope of every non-todo service: declared, or
// contextual iff it transitively reaches a declared-contextual service, else shared.
func (a *Analysis) EffectiveScopes() map[string]string {
	r := map[string]string{}
	decl := map[string]string{}
	for _, s := range a.C.Services {
		if s.Scope != nil && !s.IsTodo() {
			decl[s.Name] = *s.Scope
		}
	}
	for _, s := range a.C.Services {
		if d, ok := decl[s.Name]; ok {
			r[s.Name] = d
			continue
		}
		r[s.Name] = "shared"
		if a.Graph == nil {
			continue
		}
		for n := range a.Graph.Reach(SvcNode(s.Name)) {
			if len(n) > 1 && n[0] == '@' && decl[n[1:]] == "contextual" {
				r[s.Name] = "contextual"
			}
		}
	}
	return r
}
