package ref

import (
	"fmt"
	"strings"
)

// ChunkKind of a %pattern% chunk.
type ChunkKind int

const (
	ChunkText    ChunkKind = iota // literal text
	ChunkPercent                  // %% -> %
	ChunkRef                      // %name%
	ChunkFunc                     // %fn(args)%
)

type Chunk struct {
	Kind ChunkKind
	Raw  string // the chunk as written (with delimiters for tokens)
	Text string // ChunkText: the text
	Name string // ChunkRef: parameter name; ChunkFunc: function name
	Args string // ChunkFunc: raw argument text between the parentheses
}

// PatternError describes why a pattern is rejected at build time.
type PatternError struct {
	Kind  string // unclosed, unknown-function, bad-token
	Token string
}

func (e *PatternError) Error() string { return e.Kind + ": " + e.Token }

// ParsePattern splits s into chunks by pairing `%` delimiters from left to right
// and classifies every delimited chunk. funcs is the set of registered functions.
// All errors of all chunks are returned (the tool reports each bad token).
func ParsePattern(s string, funcs map[string]bool) ([]Chunk, []*PatternError) {
	if s == "" {
		return []Chunk{{Kind: ChunkText, Raw: "", Text: ""}}, nil
	}
	var chunks []Chunk
	var errs []*PatternError
	i := 0
	for i < len(s) {
		j := strings.IndexByte(s[i:], '%')
		if j < 0 {
			chunks = append(chunks, Chunk{Kind: ChunkText, Raw: s[i:], Text: s[i:]})
			break
		}
		if j > 0 {
			chunks = append(chunks, Chunk{Kind: ChunkText, Raw: s[i : i+j], Text: s[i : i+j]})
		}
		start := i + j
		k := strings.IndexByte(s[start+1:], '%')
		if k < 0 {
			return nil, []*PatternError{{Kind: "unclosed", Token: s[start:]}}
		}
		end := start + 1 + k // index of the closing %
		raw := s[start : end+1]
		inner := s[start+1 : end]
		c := Chunk{Raw: raw}
		switch {
		case inner == "":
			c.Kind = ChunkPercent
		default:
			if fn, args, ok := splitCall(inner); ok {
				if funcs[fn] {
					c.Kind, c.Name, c.Args = ChunkFunc, fn, args
				} else {
					errs = append(errs, &PatternError{Kind: "unknown-function", Token: raw})
				}
			} else if YamlName(inner) {
				c.Kind, c.Name = ChunkRef, inner
			} else {
				errs = append(errs, &PatternError{Kind: "bad-token", Token: raw})
			}
		}
		chunks = append(chunks, c)
		i = end + 1
	}
	if len(errs) > 0 {
		return nil, errs
	}
	return chunks, nil
}

// splitCall recognises `ident(anything-on-one-line)`.
func splitCall(s string) (fn, args string, ok bool) {
	i := strings.IndexByte(s, '(')
	if i <= 0 || !strings.HasSuffix(s, ")") {
		return "", "", false
	}
	fn = s[:i]
	if !GoIdent(fn) {
		return "", "", false
	}
	args = s[i+1 : len(s)-1]
	if strings.ContainsRune(args, '\n') {
		return "", "", false
	}
	return fn, args, true
}

// RefsOf lists the parameter names a parsed pattern references, in order.
func RefsOf(chunks []Chunk) []string {
	var r []string
	for _, c := range chunks {
		if c.Kind == ChunkRef {
			r = append(r, c.Name)
		}
	}
	return r
}

// CastToString is the documented string cast used when several chunks are concatenated.
func CastToString(v any) (string, error) {
	switch x := v.(type) {
	case string:
		return x, nil
	case bool:
		if x {
			return "true", nil
		}
		return "false", nil
	case nil:
		return "nil", nil
	case int:
		return fmt.Sprintf("%d", x), nil
	case int64:
		return fmt.Sprintf("%d", x), nil
	case uint64:
		return fmt.Sprintf("%d", x), nil
	case uint:
		return fmt.Sprintf("%d", x), nil
	case float64:
		return formatFloatPlain(x), nil
	}
	return "", fmt.Errorf("type %T is not supported", v)
}

// DoublePercent is the inverse used by the round-trip law: every % doubled.
func DoublePercent(s string) string { return strings.ReplaceAll(s, "%", "%%") }
