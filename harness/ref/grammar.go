package ref

import "strings"

// Hand-written recognisers for every grammar position of the documented
// configuration language. No regular expressions are used here on purpose: the
// repository implements the grammar with regular expressions, and the two
// implementations are compared on generated strings.

func isLetter(c byte) bool { return c >= 'a' && c <= 'z' || c >= 'A' && c <= 'Z' }
func isDigit(c byte) bool  { return c >= '0' && c <= '9' }
func isAlnum(c byte) bool  { return isLetter(c) || isDigit(c) }

// GoIdent: a letter followed by letters, digits and underscores
// (pkg, container type/constructor, getter, method, field, function names).
func GoIdent(s string) bool {
	if s == "" || !isLetter(s[0]) {
		return false
	}
	for i := 1; i < len(s); i++ {
		if !isAlnum(s[i]) && s[i] != '_' {
			return false
		}
	}
	return true
}

// YamlName: parameter, service, tag and alias names. A letter, then letters and
// digits, each optionally preceded by exactly one of '.', '-', '_'.
func YamlName(s string) bool {
	if s == "" || !isLetter(s[0]) {
		return false
	}
	i := 1
	for i < len(s) {
		c := s[i]
		if c == '.' || c == '-' || c == '_' {
			i++
			if i >= len(s) {
				return false
			}
			c = s[i]
		}
		if !isAlnum(c) {
			return false
		}
		i++
	}
	return true
}

func importChar(c byte) bool {
	return isAlnum(c) || c == '.' || c == '_' || c == '-'
}

// BareImport: an import path without quotes: starts with a letter; then path
// characters (letters, digits, '.', '_', '-'), each optionally preceded by one '/'.
func BareImport(s string) bool {
	if s == "" || !isLetter(s[0]) {
		return false
	}
	i := 1
	for i < len(s) {
		c := s[i]
		if c == '/' {
			i++
			if i >= len(s) {
				return false
			}
			c = s[i]
		}
		if !importChar(c) {
			return false
		}
		i++
	}
	return true
}

// ImportRef: a bare import, a quoted import, or "." (quoted dot) for the current package.
func ImportRef(s string) bool {
	if s == `"."` {
		return true
	}
	if len(s) >= 2 && s[0] == '"' && s[len(s)-1] == '"' {
		return BareImport(s[1 : len(s)-1])
	}
	return BareImport(s)
}

// SymRef is a parsed reference `import.Name`.
type SymRef struct {
	Ptr    string // "", "*" or "&"
	Import string // as written (maybe quoted), "" when absent
	Name   string // last identifier (function, type, struct) or dotted path for values
	Braces bool   // `{}` suffix
}

// ImportPath strips the quotes; "." means the current package and yields "".
func (r SymRef) ImportPath() string {
	p := strings.Trim(r.Import, `"`)
	if p == "." {
		return ""
	}
	return p
}

// splitImportIdent parses `(import.)?Ident`.
func splitImportIdent(s string) (imp, id string, ok bool) {
	i := strings.LastIndexByte(s, '.')
	if i < 0 {
		return "", s, GoIdent(s)
	}
	imp, id = s[:i], s[i+1:]
	return imp, id, ImportRef(imp) && GoIdent(id)
}

// FuncRef: constructor, decorator, go function: `(import.)?Func`.
func FuncRef(s string) (SymRef, bool) {
	imp, id, ok := splitImportIdent(s)
	return SymRef{Import: imp, Name: id}, ok
}

// TypeRef: `*?(import.)?Type`.
func TypeRef(s string) (SymRef, bool) {
	ptr := ""
	if strings.HasPrefix(s, "*") {
		ptr, s = "*", s[1:]
	}
	imp, id, ok := splitImportIdent(s)
	return SymRef{Ptr: ptr, Import: imp, Name: id}, ok
}

// ValueRef: the ten documented value forms:
//
//	&?(import.)?Ident(.Ident)*      — with a quoted import the dotted path may have
//	                                  several elements; unquoted, everything before the
//	                                  last dot is the import
//	&?(import.)?Struct{}
func ValueRef(s string) (SymRef, bool) {
	var r SymRef
	if strings.HasPrefix(s, "&") {
		r.Ptr, s = "&", s[1:]
	}
	if strings.HasSuffix(s, "{}") {
		r.Braces = true
		imp, id, ok := splitImportIdent(s[:len(s)-2])
		r.Import, r.Name = imp, id
		return r, ok
	}
	if strings.HasPrefix(s, `"`) {
		// quoted import: find the closing quote
		j := strings.IndexByte(s[1:], '"')
		if j < 0 {
			return r, false
		}
		imp := s[:j+2]
		rest := s[j+2:]
		if !ImportRef(imp) || !strings.HasPrefix(rest, ".") {
			return r, false
		}
		path := rest[1:]
		for _, part := range strings.Split(path, ".") {
			if !GoIdent(part) {
				return r, false
			}
		}
		r.Import, r.Name = imp, path
		return r, true
	}
	i := strings.LastIndexByte(s, '.')
	if i < 0 {
		r.Name = s
		return r, GoIdent(s)
	}
	r.Import, r.Name = s[:i], s[i+1:]
	return r, BareImport(r.Import) && GoIdent(r.Name)
}

func isYAMLSpaceForArg(c byte) bool {
	return c == ' ' || c == '\t' || c == '\n' || c == '\f' || c == '\r'
}

// ArgKind classifies a string argument (service arguments, call arguments, fields,
// decorator arguments) by its documented special prefixes.
type ArgKind int

const (
	ArgPattern   ArgKind = iota // processed like a parameter
	ArgValue                    // !value expr
	ArgService                  // @name
	ArgTagged                   // !tagged tag
	ArgGontainer                // $gontainer
)

// prefixWS reports whether s starts with kw followed by at least one whitespace
// character and returns the rest after all whitespace.
func prefixWS(s, kw string) (string, bool) {
	if !strings.HasPrefix(s, kw) {
		return "", false
	}
	rest := s[len(kw):]
	n := 0
	for n < len(rest) && isYAMLSpaceForArg(rest[n]) {
		n++
	}
	if n == 0 {
		return "", false
	}
	return rest[n:], true
}

// ClassifyArg returns the kind, the payload (expression / name / tag) and whether
// the payload is well-formed. The order of the checks is the documented one.
func ClassifyArg(s string) (ArgKind, string, bool) {
	if rest, ok := prefixWS(s, "!value"); ok {
		_, v := ValueRef(rest)
		return ArgValue, rest, v
	}
	if strings.HasPrefix(s, "@") {
		return ArgService, s[1:], YamlName(s[1:])
	}
	if rest, ok := prefixWS(s, "!tagged"); ok {
		return ArgTagged, rest, YamlName(rest)
	}
	if s == "$gontainer" {
		return ArgGontainer, "", true
	}
	return ArgPattern, s, true
}

// DecoratorTag: `*` or a tag name.
func DecoratorTag(s string) bool { return s == "*" || YamlName(s) }

// ScopeKeyword reports whether s is one of the three documented keywords.
func ScopeKeyword(s string) bool { return s == "shared" || s == "contextual" || s == "non_shared" }
