// Package ref is the reference model: oracles written from the property statements
// and the documentation. It shares no code with the repository under test.
package ref

import "strings"

// SemVer is a strictly parsed semantic version (https://semver.org), no leading "v".
type SemVer struct {
	Major, Minor, Patch string // decimal strings without leading zeros
	Pre, Build          string
}

func numericID(s string) bool {
	if s == "" {
		return false
	}
	for _, c := range s {
		if c < '0' || c > '9' {
			return false
		}
	}
	return s == "0" || s[0] != '0'
}

func identChars(s string) bool {
	if s == "" {
		return false
	}
	for _, c := range s {
		if !(c >= '0' && c <= '9' || c >= 'a' && c <= 'z' || c >= 'A' && c <= 'Z' || c == '-') {
			return false
		}
	}
	return true
}

func allDigits(s string) bool {
	for _, c := range s {
		if c < '0' || c > '9' {
			return false
		}
	}
	return s != ""
}

// ParseSemVer parses MAJOR.MINOR.PATCH[-pre][+build] strictly.
func ParseSemVer(s string) (SemVer, bool) {
	var v SemVer
	rest := s
	if i := strings.IndexByte(rest, '+'); i >= 0 {
		v.Build = rest[i+1:]
		rest = rest[:i]
		for _, id := range strings.Split(v.Build, ".") {
			if !identChars(id) {
				return v, false
			}
		}
	}
	if i := strings.IndexByte(rest, '-'); i >= 0 {
		v.Pre = rest[i+1:]
		rest = rest[:i]
		for _, id := range strings.Split(v.Pre, ".") {
			if !identChars(id) {
				return v, false
			}
			if allDigits(id) && !numericID(id) {
				return v, false
			}
		}
	}
	parts := strings.Split(rest, ".")
	if len(parts) != 3 {
		return v, false
	}
	for _, p := range parts {
		if !numericID(p) {
			return v, false
		}
	}
	v.Major, v.Minor, v.Patch = parts[0], parts[1], parts[2]
	return v, true
}

// cmpNum compares two canonical decimal strings.
func cmpNum(a, b string) int {
	if len(a) != len(b) {
		if len(a) < len(b) {
			return -1
		}
		return 1
	}
	return strings.Compare(a, b)
}

type VersionVerdict int

const (
	VersionAccept     VersionVerdict = iota // compatible, or check skipped
	VersionReject                           // incompatible versions
	VersionParseError                       // V is not a semantic version string without leading v
)

func (v VersionVerdict) String() string {
	return [...]string{"accept", "reject", "parse-error"}[v]
}

// VersionRule is the gate of C18. build is what the tool carries (no leading v);
// declared is nil when the configuration has no version; declaredIsString tells
// whether the YAML value was a string scalar.
func VersionRule(build string, declared *string, declaredIsString bool) VersionVerdict {
	if declared == nil {
		return VersionAccept
	}
	if !declaredIsString {
		return VersionParseError
	}
	v, ok := ParseSemVer(*declared)
	if !ok {
		return VersionParseError
	}
	b, ok := ParseSemVer(build)
	if !ok {
		return VersionAccept // build without a semantic version: check skipped
	}
	if b.Major == "0" {
		if v.Major == "0" && v.Minor == b.Minor {
			return VersionAccept
		}
		return VersionReject
	}
	if v.Major == b.Major && cmpNum(v.Minor, b.Minor) <= 0 {
		return VersionAccept
	}
	return VersionReject
}
