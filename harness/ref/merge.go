package ref

import "verifh/cfg"

// Merge folds the files in order according to the documented rules: for the same
// key later scalar attributes override earlier ones, mappings are united key-wise
// with later values winning, non-empty arguments replace earlier arguments, calls,
// tags and decorators are appended in file order.
func Merge(files ...cfg.Config) cfg.Config {
	var acc cfg.Config
	for _, f := range files {
		acc = merge2(acc, f.Clone())
	}
	return acc
}

func laterP[T any](a, b *T) *T {
	if b != nil {
		return b
	}
	return a
}

func mergeKV(a, b []cfg.KV) []cfg.KV {
	r := append([]cfg.KV(nil), a...)
	for _, kv := range b {
		found := false
		for i := range r {
			if r[i].K == kv.K {
				r[i].V = kv.V
				found = true
			}
		}
		if !found {
			r = append(r, kv)
		}
	}
	return r
}

func merge2(a, b cfg.Config) cfg.Config {
	var r cfg.Config
	r.Version = laterP(a.Version, b.Version)
	r.Meta = cfg.Meta{
		Pkg:         laterP(a.Meta.Pkg, b.Meta.Pkg),
		Type:        laterP(a.Meta.Type, b.Meta.Type),
		Ctor:        laterP(a.Meta.Ctor, b.Meta.Ctor),
		DefaultMust: laterP(a.Meta.DefaultMust, b.Meta.DefaultMust),
		Imports:     mergeKV(a.Meta.Imports, b.Meta.Imports),
		Functions:   mergeKV(a.Meta.Functions, b.Meta.Functions),
	}
	r.Params = append([]cfg.Param(nil), a.Params...)
	for _, p := range b.Params {
		if q := r.Param(p.Name); q != nil {
			q.Val = p.Val
		} else {
			r.Params = append(r.Params, p)
		}
	}
	r.Services = append([]cfg.Service(nil), a.Services...)
	for _, s := range b.Services {
		t := r.Service(s.Name)
		if t == nil {
			r.Services = append(r.Services, s)
			continue
		}
		t.Getter = laterP(t.Getter, s.Getter)
		t.Must = laterP(t.Must, s.Must)
		t.Type = laterP(t.Type, s.Type)
		t.Value = laterP(t.Value, s.Value)
		t.Ctor = laterP(t.Ctor, s.Ctor)
		if len(s.Args) > 0 {
			t.Args = s.Args
		}
		t.Calls = append(append([]cfg.Call(nil), t.Calls...), s.Calls...)
		fs := append([]cfg.Field(nil), t.Fields...)
		for _, f := range s.Fields {
			found := false
			for i := range fs {
				if fs[i].Name == f.Name {
					fs[i].Val = f.Val
					found = true
				}
			}
			if !found {
				fs = append(fs, f)
			}
		}
		t.Fields = fs
		t.Tags = append(append([]cfg.Tag(nil), t.Tags...), s.Tags...)
		t.Scope = laterP(t.Scope, s.Scope)
		t.Todo = laterP(t.Todo, s.Todo)
	}
	r.Decorators = append(append([]cfg.Decorator(nil), a.Decorators...), b.Decorators...)
	return r
}
