// Package cfg holds the configuration model (a JSON-serialisable mirror of the
// documented YAML schema), YAML emitters and rapid generators.
package cfg

import (
	"fmt"
	"math"
	"sort"
	"strconv"
)

// Val is one primitive YAML scalar.
type Val struct {
	K  string  `json:"k"` // int, uint, float, bool, null, str
	I  int64   `json:"i,omitempty"`
	U  uint64  `json:"u,omitempty"`
	F  float64 `json:"f,omitempty"`
	FS string  `json:"fs,omitempty"` // ".inf", "-.inf", ".nan" for non-finite floats
	B  bool    `json:"b,omitempty"`
	S  string  `json:"s,omitempty"`
}

func Int(i int64) Val   { return Val{K: "int", I: i} }
func Uint(u uint64) Val { return Val{K: "uint", U: u} }
func Bool(b bool) Val   { return Val{K: "bool", B: b} }
func Null() Val         { return Val{K: "null"} }
func Str(s string) Val  { return Val{K: "str", S: s} }
func Float(f float64) Val {
	switch {
	case math.IsNaN(f):
		return Val{K: "float", FS: ".nan"}
	case math.IsInf(f, 1):
		return Val{K: "float", FS: ".inf"}
	case math.IsInf(f, -1):
		return Val{K: "float", FS: "-.inf"}
	}
	return Val{K: "float", F: f}
}

func (v Val) Float64() float64 {
	switch v.FS {
	case ".nan":
		return math.NaN()
	case ".inf":
		return math.Inf(1)
	case "-.inf":
		return math.Inf(-1)
	}
	return v.F
}

func (v Val) IsStr() bool { return v.K == "str" }

// Generic returns what yaml.v3 decodes this scalar to.
func (v Val) Generic() any {
	switch v.K {
	case "int":
		return int(v.I)
	case "uint":
		return v.U
	case "float":
		return v.Float64()
	case "bool":
		return v.B
	case "null":
		return nil
	}
	return v.S
}

func (v Val) String() string {
	switch v.K {
	case "int":
		return strconv.FormatInt(v.I, 10)
	case "uint":
		return strconv.FormatUint(v.U, 10)
	case "float":
		if v.FS != "" {
			return v.FS
		}
		return strconv.FormatFloat(v.F, 'g', -1, 64)
	case "bool":
		return strconv.FormatBool(v.B)
	case "null":
		return "~"
	}
	return strconv.Quote(v.S)
}

type KV struct {
	K string `json:"k"`
	V string `json:"v"`
}

type Meta struct {
	Pkg         *string `json:"pkg,omitempty"`
	Type        *string `json:"container_type,omitempty"`
	Ctor        *string `json:"container_constructor,omitempty"`
	DefaultMust *bool   `json:"default_must_getter,omitempty"`
	Imports     []KV    `json:"imports,omitempty"`
	Functions   []KV    `json:"functions,omitempty"`
	// HasImports / HasFunctions: emit the key even if the list is empty.
}

func (m Meta) Empty() bool {
	return m.Pkg == nil && m.Type == nil && m.Ctor == nil && m.DefaultMust == nil && len(m.Imports) == 0 && len(m.Functions) == 0
}

type Param struct {
	Name string `json:"name"`
	Val  Val    `json:"val"`
}

type Call struct {
	Method string `json:"method"`
	Args   []Val  `json:"args,omitempty"`
	Wither bool   `json:"wither,omitempty"`
	Arity  int    `json:"arity,omitempty"` // number of elements emitted (1..3); 0 = minimal
}

type Tag struct {
	Name    string `json:"name"`
	Prio    int    `json:"prio,omitempty"`
	ObjForm bool   `json:"obj_form,omitempty"` // {name:, priority:} form (forced when Prio != 0)
	NoPrio  bool   `json:"no_prio,omitempty"`  // object form without priority key
}

type Field struct {
	Name string `json:"name"`
	Val  Val    `json:"val"`
}

type Service struct {
	Name   string  `json:"name"`
	Getter *string `json:"getter,omitempty"`
	Must   *bool   `json:"must_getter,omitempty"`
	Type   *string `json:"type,omitempty"`
	Value  *string `json:"value,omitempty"`
	Ctor   *string `json:"constructor,omitempty"`
	Args   []Val   `json:"arguments,omitempty"`
	Calls  []Call  `json:"calls,omitempty"`
	Fields []Field `json:"fields,omitempty"`
	Tags   []Tag   `json:"tags,omitempty"`
	Scope  *string `json:"scope,omitempty"`
	Todo   *bool   `json:"todo,omitempty"`
}

type Decorator struct {
	Tag  string `json:"tag"`
	Fn   string `json:"decorator"`
	Args []Val  `json:"arguments,omitempty"`
}

// Config is one YAML document (a whole configuration or one file of a split).
type Config struct {
	Version    *string     `json:"version,omitempty"`
	Meta       Meta        `json:"meta"`
	Params     []Param     `json:"parameters,omitempty"`
	Services   []Service   `json:"services,omitempty"`
	Decorators []Decorator `json:"decorators,omitempty"`
}

func P[T any](v T) *T { return &v }

func (c *Config) Service(name string) *Service {
	for i := range c.Services {
		if c.Services[i].Name == name {
			return &c.Services[i]
		}
	}
	return nil
}

func (c *Config) Param(name string) *Param {
	for i := range c.Params {
		if c.Params[i].Name == name {
			return &c.Params[i]
		}
	}
	return nil
}

// Clone makes a deep copy.
func (c Config) Clone() Config {
	cp := c
	cp.Version = cloneP(c.Version)
	cp.Meta = c.Meta.clone()
	cp.Params = append([]Param(nil), c.Params...)
	cp.Services = make([]Service, len(c.Services))
	for i, s := range c.Services {
		cp.Services[i] = s.Clone()
	}
	if c.Services == nil {
		cp.Services = nil
	}
	cp.Decorators = make([]Decorator, len(c.Decorators))
	for i, d := range c.Decorators {
		cp.Decorators[i] = Decorator{Tag: d.Tag, Fn: d.Fn, Args: append([]Val(nil), d.Args...)}
	}
	if c.Decorators == nil {
		cp.Decorators = nil
	}
	return cp
}

func cloneP[T any](p *T) *T {
	if p == nil {
		return nil
	}
	v := *p
	return &v
}

func (m Meta) clone() Meta {
	return Meta{
		Pkg: cloneP(m.Pkg), Type: cloneP(m.Type), Ctor: cloneP(m.Ctor), DefaultMust: cloneP(m.DefaultMust),
		Imports: append([]KV(nil), m.Imports...), Functions: append([]KV(nil), m.Functions...),
	}
}

func (s Service) Clone() Service {
	cp := s
	cp.Getter, cp.Must, cp.Type, cp.Value, cp.Ctor = cloneP(s.Getter), cloneP(s.Must), cloneP(s.Type), cloneP(s.Value), cloneP(s.Ctor)
	cp.Scope, cp.Todo = cloneP(s.Scope), cloneP(s.Todo)
	cp.Args = append([]Val(nil), s.Args...)
	cp.Calls = make([]Call, len(s.Calls))
	for i, c := range s.Calls {
		cp.Calls[i] = Call{Method: c.Method, Args: append([]Val(nil), c.Args...), Wither: c.Wither, Arity: c.Arity}
	}
	if s.Calls == nil {
		cp.Calls = nil
	}
	cp.Fields = append([]Field(nil), s.Fields...)
	cp.Tags = append([]Tag(nil), s.Tags...)
	return cp
}

// AllArgs lists every argument position of a service: constructor arguments, call
// arguments in call order, field values in field-name order.
func (s Service) AllArgs() []Val {
	var r []Val
	r = append(r, s.Args...)
	for _, c := range s.Calls {
		r = append(r, c.Args...)
	}
	fs := append([]Field(nil), s.Fields...)
	sort.SliceStable(fs, func(i, j int) bool { return fs[i].Name < fs[j].Name })
	for _, f := range fs {
		r = append(r, f.Val)
	}
	return r
}

func (s Service) IsTodo() bool { return s.Todo != nil && *s.Todo }

func (s Service) String() string { return fmt.Sprintf("service(%s)", s.Name) }
