package cfg

import (
	"bytes"
	"fmt"
	"math"
	"reflect"
	"strconv"
	"strings"

	"gopkg.in/yaml.v3"
)

// Style selects the spelling of a YAML document; everything is a pure function of
// the fields (which are drawn by rapid), so cases shrink and replay.
type Style struct {
	Seed     uint64 `json:"seed,omitempty"`      // drives key permutations and per-node choices
	PermKeys bool   `json:"perm_keys,omitempty"` // permute the keys of every mapping
	Flow     bool   `json:"flow,omitempty"`      // allow flow style for some collections
	Quotes   bool   `json:"quotes,omitempty"`    // vary scalar quoting
	Blocks   bool   `json:"blocks,omitempty"`    // literal block scalars (|, |-, |+) for some strings with line breaks
}

type prng struct{ s uint64 }

func (p *prng) next() uint64 {
	p.s += 0x9e3779b97f4a7c15
	z := p.s
	z = (z ^ (z >> 30)) * 0xbf58476d1ce4e5b9
	z = (z ^ (z >> 27)) * 0x94d049bb133111eb
	return z ^ (z >> 31)
}

func (p *prng) intn(n int) int {
	if n <= 1 {
		return 0
	}
	return int(p.next() % uint64(n))
}

type emitter struct {
	st Style
	r  *prng
}

func (e *emitter) scalar(tag, value string) *yaml.Node {
	return &yaml.Node{Kind: yaml.ScalarNode, Tag: tag, Value: value}
}

func (e *emitter) str(s string) *yaml.Node {
	n := &yaml.Node{Kind: yaml.ScalarNode, Tag: "!!str", Value: s}
	if strings.ContainsAny(s, "\n\r") {
		if e.st.Blocks && blockSafe(s) && e.r.intn(2) == 0 {
			// the encoder chooses the chomping indicator: trailing line breaks belong to the value (|+), which makes
			// the value depend on how the document ends when the scalar is its last node
			n.Style = yaml.LiteralStyle
			return n
		}
		// yaml.v3 would pick the literal block style, which loses leading line breaks
		n.Style = yaml.DoubleQuotedStyle
		return n
	}
	if e.st.Quotes {
		switch e.r.intn(3) {
		case 1:
			n.Style = yaml.DoubleQuotedStyle
		case 2:
			if !strings.ContainsAny(s, "\n\r\t\x00") && isPrintable(s) {
				n.Style = yaml.SingleQuotedStyle
			} else {
				n.Style = yaml.DoubleQuotedStyle
			}
		}
	}
	return n
}

// blockSafe: strings a literal block scalar can carry (the serialiser's round-trip self-check still guards the result).
func blockSafe(s string) bool {
	if s == "" || s[0] == '\n' || s[0] == ' ' || s[0] == '\t' || strings.ContainsAny(s, "\r") {
		return false
	}
	for _, line := range strings.Split(s, "\n") {
		if !isPrintable(strings.ReplaceAll(line, "\t", "")) {
			return false
		}
	}
	return true
}

func isPrintable(s string) bool {
	for _, c := range s {
		if c < 0x20 || c == 0x7f || (c >= 0x80 && c < 0xa0) || c == 0xfeff || c == 0x2028 || c == 0x2029 {
			return false
		}
	}
	return true
}

func fmtYAMLFloat(f float64) string {
	s := strconv.FormatFloat(f, 'g', -1, 64)
	if !strings.ContainsAny(s, ".eE") {
		s += ".0"
	}
	if strings.ContainsAny(s, "eE") && !strings.Contains(s, ".") {
		// 1e+06 -> 1.0e+06 (keeps the YAML 1.1 core schema happy as well)
		i := strings.IndexAny(s, "eE")
		s = s[:i] + ".0" + s[i:]
	}
	return s
}

func (e *emitter) val(v Val) *yaml.Node {
	switch v.K {
	case "int":
		return e.scalar("!!int", strconv.FormatInt(v.I, 10))
	case "uint":
		return e.scalar("!!int", strconv.FormatUint(v.U, 10))
	case "float":
		if v.FS != "" {
			return e.scalar("!!float", v.FS)
		}
		return e.scalar("!!float", fmtYAMLFloat(v.F))
	case "bool":
		return e.scalar("!!bool", strconv.FormatBool(v.B))
	case "null":
		if e.st.Quotes && e.r.intn(2) == 0 {
			return e.scalar("!!null", "null")
		}
		return e.scalar("!!null", "~")
	}
	return e.str(v.S)
}

func (e *emitter) seq(items []*yaml.Node) *yaml.Node {
	n := &yaml.Node{Kind: yaml.SequenceNode, Tag: "!!seq", Content: items}
	if len(items) == 0 || (e.st.Flow && e.r.intn(2) == 0) {
		n.Style = yaml.FlowStyle
	}
	return n
}

type kvNode struct {
	k string
	v *yaml.Node
}

func (e *emitter) mapping(kvs []kvNode) *yaml.Node {
	if e.st.PermKeys {
		for i := len(kvs) - 1; i > 0; i-- {
			j := e.r.intn(i + 1)
			kvs[i], kvs[j] = kvs[j], kvs[i]
		}
	}
	n := &yaml.Node{Kind: yaml.MappingNode, Tag: "!!map"}
	for _, kv := range kvs {
		n.Content = append(n.Content, e.str(kv.k), kv.v)
	}
	if len(kvs) == 0 || (e.st.Flow && e.r.intn(3) == 0) {
		n.Style = yaml.FlowStyle
	}
	return n
}

func (e *emitter) vals(vs []Val) []*yaml.Node {
	r := make([]*yaml.Node, len(vs))
	for i, v := range vs {
		r[i] = e.val(v)
	}
	return r
}

func (e *emitter) service(s Service) *yaml.Node {
	var kvs []kvNode
	add := func(k string, n *yaml.Node) { kvs = append(kvs, kvNode{k, n}) }
	if s.Getter != nil {
		add("getter", e.str(*s.Getter))
	}
	if s.Must != nil {
		add("must_getter", e.scalar("!!bool", strconv.FormatBool(*s.Must)))
	}
	if s.Type != nil {
		add("type", e.str(*s.Type))
	}
	if s.Value != nil {
		add("value", e.str(*s.Value))
	}
	if s.Ctor != nil {
		add("constructor", e.str(*s.Ctor))
	}
	if s.Args != nil {
		add("arguments", e.seq(e.vals(s.Args)))
	}
	if s.Calls != nil {
		var cs []*yaml.Node
		for _, c := range s.Calls {
			items := []*yaml.Node{e.str(c.Method)}
			ar := c.Arity
			if c.Wither {
				ar = 3
			} else if len(c.Args) > 0 && ar < 2 {
				ar = 2
			}
			if ar >= 2 {
				items = append(items, e.seq(e.vals(c.Args)))
			}
			if ar >= 3 {
				items = append(items, e.scalar("!!bool", strconv.FormatBool(c.Wither)))
			}
			n := &yaml.Node{Kind: yaml.SequenceNode, Tag: "!!seq", Content: items, Style: yaml.FlowStyle}
			cs = append(cs, n)
		}
		add("calls", e.seq(cs))
	}
	if s.Fields != nil {
		var fk []kvNode
		for _, f := range s.Fields {
			fk = append(fk, kvNode{f.Name, e.val(f.Val)})
		}
		add("fields", e.mapping(fk))
	}
	if s.Tags != nil {
		var ts []*yaml.Node
		for _, t := range s.Tags {
			if t.Prio == 0 && !t.ObjForm {
				ts = append(ts, e.str(t.Name))
				continue
			}
			kv := []kvNode{{"name", e.str(t.Name)}}
			if !(t.NoPrio && t.Prio == 0) {
				kv = append(kv, kvNode{"priority", e.scalar("!!int", strconv.Itoa(t.Prio))})
			}
			m := e.mapping(kv)
			ts = append(ts, m)
		}
		add("tags", e.seq(ts))
	}
	if s.Scope != nil {
		add("scope", e.str(*s.Scope))
	}
	if s.Todo != nil {
		add("todo", e.scalar("!!bool", strconv.FormatBool(*s.Todo)))
	}
	return e.mapping(kvs)
}

// Node builds the document node of c.
func (e *emitter) doc(c Config) *yaml.Node {
	var top []kvNode
	if c.Version != nil {
		top = append(top, kvNode{"version", e.str(*c.Version)})
	}
	if !c.Meta.Empty() {
		var mk []kvNode
		if c.Meta.Pkg != nil {
			mk = append(mk, kvNode{"pkg", e.str(*c.Meta.Pkg)})
		}
		if c.Meta.Type != nil {
			mk = append(mk, kvNode{"container_type", e.str(*c.Meta.Type)})
		}
		if c.Meta.Ctor != nil {
			mk = append(mk, kvNode{"container_constructor", e.str(*c.Meta.Ctor)})
		}
		if c.Meta.DefaultMust != nil {
			mk = append(mk, kvNode{"default_must_getter", e.scalar("!!bool", strconv.FormatBool(*c.Meta.DefaultMust))})
		}
		if len(c.Meta.Imports) > 0 {
			var ik []kvNode
			for _, kv := range c.Meta.Imports {
				ik = append(ik, kvNode{kv.K, e.str(kv.V)})
			}
			mk = append(mk, kvNode{"imports", e.mapping(ik)})
		}
		if len(c.Meta.Functions) > 0 {
			var fk []kvNode
			for _, kv := range c.Meta.Functions {
				fk = append(fk, kvNode{kv.K, e.str(kv.V)})
			}
			mk = append(mk, kvNode{"functions", e.mapping(fk)})
		}
		top = append(top, kvNode{"meta", e.mapping(mk)})
	}
	if c.Params != nil {
		var pk []kvNode
		for _, p := range c.Params {
			pk = append(pk, kvNode{p.Name, e.val(p.Val)})
		}
		top = append(top, kvNode{"parameters", e.mapping(pk)})
	}
	if c.Services != nil {
		var sk []kvNode
		for _, s := range c.Services {
			sk = append(sk, kvNode{s.Name, e.service(s)})
		}
		top = append(top, kvNode{"services", e.mapping(sk)})
	}
	if c.Decorators != nil {
		var ds []*yaml.Node
		for _, d := range c.Decorators {
			kv := []kvNode{{"tag", e.str(d.Tag)}, {"decorator", e.str(d.Fn)}}
			if d.Args != nil {
				kv = append(kv, kvNode{"arguments", e.seq(e.vals(d.Args))})
			}
			ds = append(ds, e.mapping(kv))
		}
		top = append(top, kvNode{"decorators", e.seq(ds)})
	}
	root := e.mapping(top)
	root.Style = 0
	return root
}

// DocNode returns the yaml.Node tree of c in the given style.
func DocNode(c Config, st Style) *yaml.Node {
	e := &emitter{st: st, r: &prng{s: st.Seed}}
	return e.doc(c)
}

// EncodeNode serialises a node tree.
func EncodeNode(n *yaml.Node) (string, error) {
	var buf bytes.Buffer
	enc := yaml.NewEncoder(&buf)
	enc.SetIndent(2)
	if err := enc.Encode(n); err != nil {
		return "", err
	}
	_ = enc.Close()
	return buf.String(), nil
}

// Emit serialises c and verifies, by decoding the text again with yaml.v3, that the
// text means exactly c (guards the oracle against the harness's own serialiser).
func Emit(c Config, st Style) (string, error) {
	if len(c.Services) == 0 && len(c.Params) == 0 && len(c.Decorators) == 0 && c.Version == nil && c.Meta.Empty() {
		if c.Services == nil && c.Params == nil && c.Decorators == nil {
			return "{}\n", nil
		}
	}
	text, err := EncodeNode(DocNode(c, st))
	if err != nil {
		return "", err
	}
	var got any
	if err := yaml.Unmarshal([]byte(text), &got); err != nil {
		return "", fmt.Errorf("self-check: emitted YAML does not parse: %v\n%s", err, text)
	}
	want := Generic(c)
	if !genericEqual(got, want) {
		return "", fmt.Errorf("self-check: emitted YAML decodes to something else\nwant %#v\ngot  %#v\n%s", want, got, text)
	}
	return text, nil
}

// MustEmit panics on failure (used where the configuration is hand-built).
func MustEmit(c Config, st Style) string {
	s, err := Emit(c, st)
	if err != nil {
		panic(err)
	}
	return s
}

// Generic is what yaml.v3 decodes the document to (into interface{}).
func Generic(c Config) any {
	top := map[string]any{}
	if c.Version != nil {
		top["version"] = *c.Version
	}
	if !c.Meta.Empty() {
		m := map[string]any{}
		if c.Meta.Pkg != nil {
			m["pkg"] = *c.Meta.Pkg
		}
		if c.Meta.Type != nil {
			m["container_type"] = *c.Meta.Type
		}
		if c.Meta.Ctor != nil {
			m["container_constructor"] = *c.Meta.Ctor
		}
		if c.Meta.DefaultMust != nil {
			m["default_must_getter"] = *c.Meta.DefaultMust
		}
		if len(c.Meta.Imports) > 0 {
			im := map[string]any{}
			for _, kv := range c.Meta.Imports {
				im[kv.K] = kv.V
			}
			m["imports"] = im
		}
		if len(c.Meta.Functions) > 0 {
			fm := map[string]any{}
			for _, kv := range c.Meta.Functions {
				fm[kv.K] = kv.V
			}
			m["functions"] = fm
		}
		top["meta"] = m
	}
	gvals := func(vs []Val) []any {
		r := make([]any, len(vs))
		for i, v := range vs {
			r[i] = v.Generic()
		}
		return r
	}
	if c.Params != nil {
		pm := map[string]any{}
		for _, p := range c.Params {
			pm[p.Name] = p.Val.Generic()
		}
		top["parameters"] = pm
	}
	if c.Services != nil {
		sm := map[string]any{}
		for _, s := range c.Services {
			m := map[string]any{}
			if s.Getter != nil {
				m["getter"] = *s.Getter
			}
			if s.Must != nil {
				m["must_getter"] = *s.Must
			}
			if s.Type != nil {
				m["type"] = *s.Type
			}
			if s.Value != nil {
				m["value"] = *s.Value
			}
			if s.Ctor != nil {
				m["constructor"] = *s.Ctor
			}
			if s.Args != nil {
				m["arguments"] = gvals(s.Args)
			}
			if s.Calls != nil {
				cs := []any{}
				for _, c := range s.Calls {
					it := []any{c.Method}
					ar := c.Arity
					if c.Wither {
						ar = 3
					} else if len(c.Args) > 0 && ar < 2 {
						ar = 2
					}
					if ar >= 2 {
						it = append(it, gvals(c.Args))
					}
					if ar >= 3 {
						it = append(it, c.Wither)
					}
					cs = append(cs, it)
				}
				m["calls"] = cs
			}
			if s.Fields != nil {
				fm := map[string]any{}
				for _, f := range s.Fields {
					fm[f.Name] = f.Val.Generic()
				}
				m["fields"] = fm
			}
			if s.Tags != nil {
				ts := []any{}
				for _, t := range s.Tags {
					if t.Prio == 0 && !t.ObjForm {
						ts = append(ts, t.Name)
						continue
					}
					tm := map[string]any{"name": t.Name}
					if !(t.NoPrio && t.Prio == 0) {
						tm["priority"] = t.Prio
					}
					ts = append(ts, tm)
				}
				m["tags"] = ts
			}
			if s.Scope != nil {
				m["scope"] = *s.Scope
			}
			if s.Todo != nil {
				m["todo"] = *s.Todo
			}
			sm[s.Name] = m
		}
		top["services"] = sm
	}
	if c.Decorators != nil {
		ds := []any{}
		for _, d := range c.Decorators {
			m := map[string]any{"tag": d.Tag, "decorator": d.Fn}
			if d.Args != nil {
				m["arguments"] = gvals(d.Args)
			}
			ds = append(ds, m)
		}
		top["decorators"] = ds
	}
	return top
}

func genericEqual(a, b any) bool {
	switch x := a.(type) {
	case map[string]any:
		y, ok := b.(map[string]any)
		if !ok || len(x) != len(y) {
			return false
		}
		for k, v := range x {
			w, ok := y[k]
			if !ok || !genericEqual(v, w) {
				return false
			}
		}
		return true
	case []any:
		y, ok := b.([]any)
		if !ok || len(x) != len(y) {
			return false
		}
		for i := range x {
			if !genericEqual(x[i], y[i]) {
				return false
			}
		}
		return true
	case float64:
		y, ok := b.(float64)
		if !ok {
			return false
		}
		if math.IsNaN(x) && math.IsNaN(y) {
			return true
		}
		return x == y
	}
	return reflect.DeepEqual(a, b)
}
