//go:build verif

package checks

import (
	"fmt"
	"sort"
	"strings"
	"testing"

	"pgregory.net/rapid"

	"verifh/cfg"
	"verifh/ev"
	"verifh/fx"
	"verifh/gen"
	"verifh/ref"
	"verifh/sut"
)

// cfgCase is the common replayable case of the verdict-level checks.
type cfgCase struct {
	C      cfg.Config `json:"config"`
	Style  cfg.Style  `json:"style"`
	Flags  sut.Flags  `json:"flags"`
	Labels []string   `json:"labels,omitempty"`
}

func drawStyle(rt *rapid.T) cfg.Style {
	return cfg.Style{Seed: rapid.Uint64().Draw(rt, "styleseed"), PermKeys: rapid.Bool().Draw(rt, "perm"), Flow: rapid.Bool().Draw(rt, "flow"), Quotes: rapid.Bool().Draw(rt, "quotes"), Blocks: rapid.Bool().Draw(rt, "blocks")}
}

// verdictEval runs the case in-process and compares the verdict with the reference
// model. It returns the analysis and the outcome (caller must cleanup) unless the
// serialiser self-check discarded the case.
func verdictEval(t tb, c cfgCase) (*ref.Analysis, *Outcome) {
	col := ev.Get()
	spec, err := singleFile(c.C, c.Style, c.Flags)
	if err != nil {
		col.Exclude("serialiser-self-check")
		return nil, nil
	}
	a := ref.Analyse(c.C)
	o := runInproc(spec)
	if key, what := compareVerdict(a, c.Flags, o); key != "" {
		o.cleanup()
		violation(t, key, what+" :: "+oneLine(spec.Files[0].Content), c)
		return a, nil
	}
	return a, &o
}

// scriptAll asks for everything the configuration declares.
func scriptAll(c cfg.Config) fx.Script {
	var ops []fx.Op
	ops = append(ops, fx.Op{Op: "circular"})
	for _, p := range c.Params {
		ops = append(ops, fx.Op{Op: "param", ID: p.Name})
	}
	tags := map[string]bool{}
	for _, s := range c.Services {
		ops = append(ops, fx.Op{Op: "get", ID: s.Name})
		for _, t := range s.Tags {
			tags[t.Name] = true
		}
	}
	var tl []string
	for t := range tags {
		tl = append(tl, t)
	}
	sort.Strings(tl)
	for _, t := range tl {
		ops = append(ops, fx.Op{Op: "tagged", ID: t})
	}
	return fx.Script{Ops: ops, Env: map[string]*string{"VERIF_SET": sp("set-value"), "VERIF_NUM": sp("42"), "VERIF_NAN": sp("x1"), "VERIF_UNSET": nil}}
}

// pendingRun collects accepted configurations for a later compile-and-probe batch.
type pendingRun struct {
	c    cfgCase
	cont *fx.Container
}

type runQueue struct {
	items []pendingRun
	check func(t tb, p pendingRun)
}

func (q *runQueue) add(c cfgCase, src []byte, script fx.Script) {
	pkg, typ, ctor := expectedNames(c.C)
	q.items = append(q.items, pendingRun{c: c, cont: &fx.Container{Name: universe().NextName(), Pkg: pkg, Type: typ, Ctor: ctor, Source: src, Script: script}})
}

// flush builds and probes what is queued (if at least min items are waiting).
func (q *runQueue) flush(t tb, min int) {
	if len(q.items) < min || len(q.items) == 0 {
		return
	}
	items := q.items
	q.items = nil
	var cs []*fx.Container
	for _, it := range items {
		cs = append(cs, it.cont)
	}
	if err := universe().BuildBatch(cs, ""); err != nil {
		t.Fatalf("INFRA: %v", err)
	}
	dropped := 0
	for _, it := range items {
		c := it.cont
		if c.CompileErr != "" || c.Crashed != "" || c.Out == nil || !c.Out.Alive {
			// compile failures are C01's business; behavioural checks count them
			dropped++
			ev.Get().Exclude("not-compiling-or-not-alive")
			continue
		}
		q.check(t, it)
	}
	if dropped*2 > len(items) && len(items) >= 4 {
		t.Fatalf("INFRA: more than half of the containers of a batch did not compile (%d of %d); this check is inconclusive on such a tree", dropped, len(items))
	}
}

func c06Probe(t tb, p pendingRun) {
	col := ev.Get()
	col.Label("accepted-and-probed")
	for _, r := range p.cont.Out.Res {
		if strings.Contains(r.Err, "does not exist") && !strings.Contains(r.Err, "environment variable") {
			violation(t, "runtime-does-not-exist", fmt.Sprintf("accepted configuration fails at run time: %s(%s): %s", r.Op, r.ID, oneLine(r.Err)), p.c)
		}
		if p.cont.Out.Hang {
			violation(t, "hang", "probe hung", p.c)
		}
	}
}

func TestC06(t *testing.T) {
	col := ev.Get()
	q := &runQueue{check: c06Probe}
	eval := func(t tb, c cfgCase) {
		a, o := verdictEval(t, c)
		if o == nil {
			return
		}
		defer o.cleanup()
		nontrivial := len(a.MissingP)+len(a.MissingS) > 0
		for _, l := range c.Labels {
			col.Label(l)
			if strings.HasPrefix(l, "todo-") {
				nontrivial = true
			}
		}
		col.Case(ev.Hash(c), nontrivial)
		col.Label("stage:" + a.Stage(false, false))
		col.Label(fmt.Sprintf("missing-params:%d", min(len(a.MissingP), 3)))
		col.Label(fmt.Sprintf("missing-services:%d", min(len(a.MissingS), 3)))
		col.Sample("stage:"+a.Stage(false, false), 2, map[string]any{"labels": c.Labels, "expected_missing_params": a.MissingP, "expected_missing_services": a.MissingS, "errors": o.Report.Errors})
		if o.Res.Exit == 0 && o.Exists {
			q.add(c, o.Out, scriptAll(c.C))
		}
	}
	var rc cfgCase
	if replayPayload(t, &rc) {
		eval(t, rc)
		q.flush(t, 1)
		return
	}
	for _, f := range regressFiles("C06") {
		var c cfgCase
		loadRegress(t, f, &c)
		eval(t, c)
		col.Label("regress")
	}
	q.flush(t, 1)

	// every position x {param, service} x shape, one at a time, on a fixed small base (exhaustive)
	base := func() cfg.Config {
		return cfg.Config{
			Meta:   cfg.Meta{Pkg: sp("app")},
			Params: []cfg.Param{{Name: "host", Val: cfg.Str("localhost")}, {Name: "port", Val: cfg.Int(80)}},
			Services: []cfg.Service{
				{Name: "dep", Ctor: sp("fx/lib.NewObj")},
				{Name: "main", Ctor: sp("fx/lib.NewObj"), Args: []cfg.Val{cfg.Str("@dep"), cfg.Str("%host%:%port%")}, Tags: []cfg.Tag{{Name: "t"}}},
			},
			Decorators: []cfg.Decorator{{Tag: "t", Fn: "fx/lib.Decorate", Args: []cfg.Val{cfg.Str("@dep")}}},
		}
	}
	idx := 0
	for _, pos := range gen.RefPositions {
		for _, target := range []string{"%nope%", "pre %nope% post", "%%%nope%", "%host%%nope%", "@nosvc", "%host%", "@dep", "%todo-p%", "@todo-s"} {
			idx++
			if !ev.Mine(idx) {
				continue
			}
			if strings.HasPrefix(pos, "param-") && strings.HasPrefix(target, "@") {
				continue // in a parameter "@x" is plain text
			}
			c := base()
			c.Params = append(c.Params, cfg.Param{Name: "todo-p", Val: cfg.Str(`%todo()%`)})
			c.Services = append(c.Services, cfg.Service{Name: "todo-s", Todo: bp(true)})
			gen.AddReference(gen.FirstChooser, &c, pos, target, "x")
			labels := []string{"position:" + pos}
			if strings.Contains(target, "todo") {
				labels = append(labels, "todo-target")
			}
			eval(t, cfgCase{C: c, Labels: labels})
		}
	}
	col.Exhaustive("7 reference positions x 9 reference texts (dangling / declared / todo targets; single, multi-chunk, after %%) on a fixed base configuration")
	q.flush(t, 1)

	// random: valid configurations with k mutations
	setRapidChecks(pick(150, 3000))
	opts := gen.All()
	opts.ValueKinds = false
	opts.Unicode = false
	rapid.Check(t, func(rt *rapid.T) {
		c, _ := gen.Valid(rt, opts)
		k := rapid.IntRange(1, 4).Draw(rt, "mutations")
		var labels []string
		for i := 0; i < k; i++ {
			lbl := fmt.Sprintf("m%d", i)
			switch rapid.IntRange(0, 5).Draw(rt, lbl+"-kind") {
			case 0, 1:
				labels = append(labels, gen.InjectDanglingParam(rt, &c, lbl))
			case 2, 3:
				labels = append(labels, gen.InjectDanglingService(rt, &c, lbl))
			case 4:
				labels = append(labels, gen.RemoveDeclaration(rt, &c, lbl))
			case 5:
				labels = append(labels, gen.MakeTodo(rt, &c, lbl))
			}
		}
		eval(rt, cfgCase{C: c, Style: drawStyle(rt), Labels: labels})
		q.flush(rt, 24)
	})
	q.flush(t, 1)
	col.Complete()
}
