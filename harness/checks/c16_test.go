//go:build verif

package checks

import (
	"bytes"
	"fmt"
	"sort"
	"strings"
	"testing"

	"pgregory.net/rapid"

	"verifh/cfg"
	"verifh/ev"
	"verifh/gen"
	"verifh/ref"
	"verifh/sut"
)

var flagCombos = []sut.Flags{
	{},
	{IgnoreMissingParams: true},
	{IgnoreMissingServices: true},
	{IgnoreMissingParams: true, IgnoreMissingServices: true},
}

func hasLabel(ls []string, l string) bool {
	for _, x := range ls {
		if x == l {
			return true
		}
	}
	return false
}

// c16Many: n references to undefined services and m to undefined parameters on one service (n + m diagnostics).
func c16Many(n, m int) cfg.Config {
	s := cfg.Service{Name: "s", Ctor: sp("fx/lib.NewObj")}
	for i := 0; i < n; i++ {
		s.Args = append(s.Args, cfg.Str(fmt.Sprintf("@gone%d", i)))
	}
	for i := 0; i < m; i++ {
		s.Args = append(s.Args, cfg.Str(fmt.Sprintf("%%nope%d%%", i)))
	}
	return cfg.Config{Meta: cfg.Meta{Pkg: sp("app")}, Services: []cfg.Service{s}}
}

func c16Eval(t tb, c cfgCase) {
	col := ev.Get()
	a := ref.Analyse(c.C)
	var obs []Verdict
	var outs [][]byte
	var reports [][]string
	for _, f := range flagCombos {
		f.Spelling = c.Flags.Spelling // how the four switches are written: bare, explicit =true/=false, repeated, in front
		cc := c
		cc.Flags = f
		spec, err := singleFile(c.C, c.Style, f)
		if err != nil {
			col.Exclude("serialiser-self-check")
			return
		}
		o := runInproc(spec)
		if key, what := compareVerdict(a, f, o); key != "" {
			o.cleanup()
			violation(t, "model:"+key, fmt.Sprintf("flags [%s]: %s :: %s", f.String(), what, oneLine(spec.Files[0].Content)), cc)
			return
		}
		if hasLabel(c.Labels, "binary") {
			// the decision the user sees is the exit status of the process
			ob := runBinary(spec, nil)
			accepted := a.Stage(f.IgnoreMissingParams, f.IgnoreMissingServices) == "accept"
			if (ob.Res.Exit == 0) != accepted || ob.Exists != accepted {
				ob.cleanup()
				o.cleanup()
				violation(t, "binary-exit-status", fmt.Sprintf("flags [%s]: the linked binary exits with %d (output written: %v), expected acceptance=%v (%d diagnostics remain)", f.String(), ob.Res.Exit, ob.Exists, accepted, len(ob.Report.Errors)), cc)
				return
			}
			ob.cleanup()
			col.Label("binary-exit-status-checked")
		}
		// --quiet changes what is printed, never what is decided or written
		qf := f
		qf.Quiet = true
		if qspec, err := singleFile(c.C, c.Style, qf); err == nil {
			oq := runInproc(qspec)
			if (oq.Res.Exit == 0) != (o.Res.Exit == 0) || !bytes.Equal(oq.Out, o.Out) {
				oq.cleanup()
				o.cleanup()
				violation(t, "quiet-changes-the-decision", fmt.Sprintf("flags [%s]: exit %d and %d bytes written, with --quiet in addition: exit %d and %d bytes", f.String(), o.Res.Exit, len(o.Out), oq.Res.Exit, len(oq.Out)), cc)
				return
			}
			oq.cleanup()
		}
		v := observeVerdict(o)
		sort.Strings(v.Cycles)
		// --stub changes what is written, never which diagnostics of the output validation remain: the switches mean the
		// same in both modes (only runs that stop in the output validation are compared; what the two modes write is C17's)
		if v.Stage == "output" {
			sf := f
			sf.Stub = true
			if sspec, err := singleFile(c.C, c.Style, sf); err == nil {
				os := runInproc(sspec)
				sv := observeVerdict(os)
				os.cleanup()
				if sv.Stage != v.Stage || strings.Join(sv.factList(), ";") != strings.Join(v.factList(), ";") {
					o.cleanup()
					violation(t, "stub-changes-the-diagnostics", fmt.Sprintf("flags [%s]: %s %v, with --stub in addition: %s %v", f.String(), v.Stage, v.factList(), sv.Stage, sv.factList()), cc)
					return
				}
				col.Label("stub-parity-checked")
			}
		}
		obs = append(obs, v)
		outs = append(outs, o.Out)
		reports = append(reports, o.Report.Errors)
		// the step table must show the switched-off rules as ignored, and only those
		for name, ignored := range map[string]bool{"Missing parameters": f.IgnoreMissingParams, "Missing services": f.IgnoreMissingServices} {
			if st, ok := o.Report.StepByName(name); ok {
				if (st.Mark == "ignored") != ignored {
					o.cleanup()
					violation(t, "step-table", fmt.Sprintf("flags [%s]: step %q is shown as %q", f.String(), name, st.Mark), cc)
					return
				}
			}
		}
		o.cleanup()
	}
	// metamorphic relation between the unflagged run and each flagged run
	base := obs[0]
	for i, f := range flagCombos[1:] {
		f.Spelling = c.Flags.Spelling
		got := obs[i+1]
		if base.Stage != "output" {
			// flags only concern the output validation: everything must be identical
			if got.Stage != base.Stage || strings.Join(got.factList(), ";") != strings.Join(base.factList(), ";") {
				violation(t, "flags-changed-other-stage", fmt.Sprintf("flags [%s] changed a run that does not fail in the output validation: %s %v -> %s %v", f.String(), base.Stage, base.factList(), got.Stage, got.factList()), c)
				return
			}
			if base.Stage == "accept" && !bytes.Equal(outs[0], outs[i+1]) {
				violation(t, "flags-changed-output-bytes", fmt.Sprintf("flags [%s] changed the generated file of an accepted configuration", f.String()), c)
				return
			}
			continue
		}
		var want []string
		for _, x := range base.factList() {
			if f.IgnoreMissingParams && strings.HasPrefix(x, "missing-param|") {
				continue
			}
			if f.IgnoreMissingServices && strings.HasPrefix(x, "missing-service|") {
				continue
			}
			want = append(want, x)
		}
		if strings.Join(want, ";") != strings.Join(got.factList(), ";") || strings.Join(base.Cycles, ";") != strings.Join(got.Cycles, ";") {
			violation(t, "flags-not-a-narrowing", fmt.Sprintf("flags [%s]: expected exactly %v + cycles %v, got %v + cycles %v", f.String(), want, base.Cycles, got.factList(), got.Cycles), c)
			return
		}
		wantAccept := len(want) == 0 && len(base.Cycles) == 0
		if wantAccept != (got.Stage == "accept") {
			violation(t, "flags-accept", fmt.Sprintf("flags [%s]: remaining diagnostics %v but stage %s", f.String(), want, got.Stage), c)
			return
		}
	}
	classes := map[string]bool{}
	if len(a.MissingP) > 0 {
		classes["missing-params"] = true
	}
	if len(a.MissingS) > 0 {
		classes["missing-services"] = true
	}
	if a.Cyclic {
		classes["cycle"] = true
	}
	if len(a.ScopeFacts) > 0 {
		classes["scope"] = true
	}
	if len(a.InputFacts)+len(a.ParamFacts)+len(a.SvcFacts)+len(a.DecFacts) > 0 {
		classes["grammar-or-token"] = true
	}
	ignorable := classes["missing-params"] || classes["missing-services"]
	other := classes["cycle"] || classes["scope"] || classes["grammar-or-token"] || (classes["missing-params"] && classes["missing-services"])
	stage := a.Stage(false, false)
	col.Case(ev.Hash(c), (ignorable && other) || stage == "accept")
	var cl []string
	for k := range classes {
		cl = append(cl, k)
	}
	sort.Strings(cl)
	col.Label("classes:" + strings.Join(cl, "+"))
	for _, l := range c.Labels {
		col.Label(l)
	}
	col.Sample("classes:"+strings.Join(cl, "+"), 1, map[string]any{"labels": c.Labels, "report_without_flags": reports[0], "report_with_both_flags": reports[3]})
}

func TestC16(t *testing.T) {
	col := ev.Get()
	var rc cfgCase
	if replayPayload(t, &rc) {
		c16Eval(t, rc)
		return
	}
	for _, f := range regressFiles("C16") {
		var c cfgCase
		loadRegress(t, f, &c)
		c16Eval(t, c)
		col.Label("regress")
	}
	// all subsets of the five defect classes on a fixed base (2^5 = 32 configurations x 4 flag combinations)
	idx := 0
	for m := 0; m < 32; m++ {
		idx++
		if !ev.Mine(idx) {
			continue
		}
		c := cfg.Config{Meta: cfg.Meta{Pkg: sp("app")},
			Params:   []cfg.Param{{Name: "host", Val: cfg.Str("h")}},
			Services: []cfg.Service{{Name: "dep", Ctor: sp("fx/lib.NewObj"), Args: []cfg.Val{cfg.Str("%host%")}}}}
		var labels []string
		if m&1 != 0 {
			c.Services[0].Args = append(c.Services[0].Args, cfg.Str("%nope%"))
			c.Params = append(c.Params, cfg.Param{Name: "q", Val: cfg.Str("a%gone%")})
			labels = append(labels, "dangling-param")
		}
		if m&2 != 0 {
			c.Services[0].Fields = []cfg.Field{{Name: "FieldA", Val: cfg.Str("@nosvc")}}
			c.Decorators = append(c.Decorators, cfg.Decorator{Tag: "x", Fn: "fx/lib.Decorate", Args: []cfg.Val{cfg.Str("@nodec")}})
			labels = append(labels, "dangling-service")
		}
		if m&4 != 0 {
			c.Services = append(c.Services, cfg.Service{Name: "loop", Ctor: sp("fx/lib.NewObj"), Args: []cfg.Val{cfg.Str("@loop")}})
			labels = append(labels, "cycle")
		}
		if m&8 != 0 {
			c.Services = append(c.Services, cfg.Service{Name: "ctx", Ctor: sp("fx/lib.NewObj"), Scope: sp("contextual")},
				cfg.Service{Name: "sh", Ctor: sp("fx/lib.NewObj"), Scope: sp("shared"), Args: []cfg.Val{cfg.Str("@ctx")}})
			labels = append(labels, "scope")
		}
		if m&16 != 0 {
			c.Services = append(c.Services, cfg.Service{Name: "bad", Ctor: sp("fx/lib.NewObj"), Getter: sp("MustBad")})
			labels = append(labels, "grammar")
		}
		for sp := 0; sp < 4; sp++ {
			c16Eval(t, cfgCase{C: c, Labels: append(append([]string(nil), labels...), fmt.Sprintf("flag-spelling:%d", sp), "binary"), Flags: sut.Flags{Spelling: sp}})
		}
	}
	// the number of diagnostics that remain under a flag at the boundaries of an 8-bit exit status
	for i, nm := range [][2]int{{256, 3}, {3, 256}, {256, 256}, {512, 255}, {255, 1}, {1, 0}} {
		idx++
		if !ev.Mine(idx) {
			continue
		}
		c16Eval(t, cfgCase{C: c16Many(nm[0], nm[1]), Labels: []string{fmt.Sprintf("many-diagnostics:%d+%d", nm[0], nm[1]), "binary"}, Flags: sut.Flags{Spelling: i % 4}})
	}
	col.Exhaustive("all 32 subsets of {dangling parameter, dangling service, cycle, scope conflict, grammar defect} on a fixed base x the 4 flag combinations x 4 spellings of the switches (bare / explicit =true,=false / repeated with the last occurrence deciding / unset ones as =false in front of -i and -o)")

	setRapidChecks(pick(80, 1500))
	opts := gen.All()
	opts.ValueKinds = false
	opts.Unicode = false
	rapid.Check(t, func(rt *rapid.T) {
		c, _ := gen.Valid(rt, opts)
		k := rapid.IntRange(0, 4).Draw(rt, "mutations")
		var labels []string
		for i := 0; i < k; i++ {
			lbl := fmt.Sprintf("m%d", i)
			switch rapid.IntRange(0, 7).Draw(rt, lbl+"-kind") {
			case 0, 1:
				labels = append(labels, gen.InjectDanglingParam(rt, &c, lbl))
			case 2, 3:
				labels = append(labels, gen.InjectDanglingService(rt, &c, lbl))
			case 4:
				labels = append(labels, gen.InjectCycle(rt, &c, lbl))
			case 5:
				labels = append(labels, gen.InjectScopeConflict(rt, &c, lbl))
			case 6:
				labels = append(labels, gen.InjectGrammarDefect(rt, &c, lbl))
			case 7:
				labels = append(labels, gen.RemoveDeclaration(rt, &c, lbl))
			}
		}
		if sccGuard(c, 7) {
			col.Exclude("scc-guard")
			return
		}
		sp := rapid.IntRange(0, 3).Draw(rt, "flag-spelling")
		c16Eval(rt, cfgCase{C: c, Style: drawStyle(rt), Labels: append(labels, fmt.Sprintf("flag-spelling:%d", sp)), Flags: sut.Flags{Spelling: sp}})
	})
	col.Complete()
}
