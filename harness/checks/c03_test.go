//go:build verif

package checks

import (
	"fmt"
	"os"
	"sort"
	"strings"
	"testing"
	"unicode/utf8"

	"pgregory.net/rapid"

	"verifh/cfg"
	"verifh/ev"
	"verifh/fx"
	"verifh/ref"
)

var c03Alphabet = []string{"%", "a", "1", ".", "-", "(", ")", "\"", " ", "é"}

// c03Strings enumerates every string of length <= L (in alphabet symbols).
func c03Strings(L int) []string {
	out := []string{""}
	prev := []string{""}
	for l := 1; l <= L; l++ {
		var cur []string
		for _, p := range prev {
			for _, a := range c03Alphabet {
				cur = append(cur, p+a)
			}
		}
		out = append(out, cur...)
		prev = cur
	}
	return out
}

// c03Declared: every name reachable in the alphabet is declared, cycling through the literal types.
func c03Declared() []cfg.Param {
	lits := []cfg.Val{cfg.Int(-3), cfg.Uint(18446744073709551615), cfg.Float(2.5), cfg.Bool(true), cfg.Null(), cfg.Str("s%%t"), cfg.Val{K: "float", FS: ".inf"}, cfg.Int(9223372036854775807)}
	var names []string
	var rec func(s string)
	rec = func(s string) {
		if len(s) > 3 {
			return
		}
		if ref.YamlName(s) {
			names = append(names, s)
		}
		for _, a := range []string{"a", "1", ".", "-"} {
			rec(s + a)
		}
	}
	rec("")
	sort.Strings(names)
	var ps []cfg.Param
	for i, n := range names {
		ps = append(ps, cfg.Param{Name: n, Val: lits[i%len(lits)]})
	}
	return ps
}

type c03Case struct {
	Position    string   `json:"position"` // param, service-arg, decorator-arg
	Candidates  []string `json:"candidates"`
	VerdictOnly bool     `json:"verdict_only,omitempty"` // arbitrary strings may reference undeclared names: only the token verdict is checked
}

// c03Config builds the configuration carrying the candidates at the given position.
func c03Config(pos string, cands []string) cfg.Config {
	// `a` is registered by its full path, `b` through an alias, `e` through an alias followed by a sub-path: the three
	// packages export the same self-identifying Echo (without arguments it names its package)
	c := cfg.Config{Meta: cfg.Meta{Pkg: sp("app"),
		Imports:   []cfg.KV{{K: "ali", V: "fx/libx"}, {K: "fxa", V: "fx/a"}},
		Functions: []cfg.KV{{K: "a", V: "fx/lib.Echo"}, {K: "b", V: "ali.Echo"}, {K: "e", V: "fxa/lib.Echo"}}}, Params: c03Declared()}
	for i, s := range cands {
		switch pos {
		case "param":
			c.Params = append(c.Params, cfg.Param{Name: fmt.Sprintf("c%d", i), Val: cfg.Str(s)})
		case "service-arg":
			c.Services = append(c.Services, cfg.Service{Name: fmt.Sprintf("h%d", i), Ctor: sp("fx/lib.NewObj"), Args: []cfg.Val{cfg.Str(s)}})
		case "decorator-arg":
			c.Services = append(c.Services, cfg.Service{Name: fmt.Sprintf("h%d", i), Ctor: sp("fx/lib.NewObj"), Tags: []cfg.Tag{{Name: fmt.Sprintf("dt%d", i)}}})
			c.Decorators = append(c.Decorators, cfg.Decorator{Tag: fmt.Sprintf("dt%d", i), Fn: "fx/lib.Decorate", Args: []cfg.Val{cfg.Str(s)}})
		}
	}
	return c
}

func c03Key(pos string, i int) string {
	switch pos {
	case "param":
		return fmt.Sprintf("token|c%d|", i)
	case "service-arg":
		return fmt.Sprintf("arg|h%d|", i)
	}
	return fmt.Sprintf("arg|%d|", i)
}

// c03Eval: pass 1 compares the set of rejected candidates; pass 2 compiles the
// accepted ones and compares every evaluated value with the reference evaluation.
func c03Eval(t tb, cs c03Case, q *[]*c03Pending) {
	col := ev.Get()
	funcs := map[string]bool{"env": true, "envInt": true, "todo": true, "a": true, "b": true, "e": true}
	expBad := map[string]bool{}
	var good []string
	for i, s := range cs.Candidates {
		nontrivial := strings.Contains(s, "%")
		col.Case(ev.HashStr(cs.Position, s), nontrivial)
		bad := false
		if cs.Position != "param" {
			if k, _, ok := ref.ClassifyArg(s); k != ref.ArgPattern {
				bad = !ok
				if !bad {
					good = append(good, s)
				}
				if bad {
					expBad[c03Key(cs.Position, i)] = true
				}
				continue
			}
		}
		if _, errs := ref.ParsePattern(s, funcs); len(errs) > 0 {
			bad = true
		}
		if bad {
			expBad[c03Key(cs.Position, i)] = true
			col.Label("expected-rejected")
		} else {
			col.Label("expected-accepted")
			// documented precondition: the text between the parentheses must be valid Go; candidates
			// violating it are checked for the build-time verdict only
			chunks, _ := ref.ParsePattern(s, funcs)
			literalArgs := true
			for _, ch := range chunks {
				if ch.Kind == ref.ChunkFunc {
					if _, ok := ref.ParseGoLits(ch.Args); !ok {
						literalArgs = false
					}
				}
			}
			if literalArgs {
				good = append(good, s)
			} else {
				col.Exclude("function-argument-not-a-literal-list")
			}
		}
	}
	c := c03Config(cs.Position, cs.Candidates)
	spec, err := singleFile(c, cfg.Style{Quotes: true, Seed: uint64(len(cs.Candidates))}, cfgCase{}.Flags)
	if err != nil {
		col.Exclude("serialiser-self-check")
		col.Sample("self-check", 2, oneLine(err.Error()))
		return
	}
	o := runInproc(spec)
	obs := observeVerdict(o)
	o.cleanup()
	if obs.Stage == "panic" {
		violation(t, "panic", "tool panicked: "+oneLine(o.Res.Panic), cs)
		return
	}
	wantStage := "accept"
	if len(expBad) > 0 {
		wantStage = map[string]string{"param": "params", "service-arg": "services", "decorator-arg": "decorators"}[cs.Position]
	}
	if cs.VerdictOnly && len(expBad) == 0 && (obs.Stage == "output" || obs.Stage == "accept") {
		return // no token error expected and none reported; dangling references are C06's business
	}
	if obs.Stage != wantStage {
		violation(t, "stage:"+wantStage+"-expected-"+obs.Stage+"-observed", fmt.Sprintf("position %s: expected stage %s, observed %s %v %v", cs.Position, wantStage, obs.Stage, obs.factList(), obs.Other), cs)
		return
	}
	for k := range expBad {
		if !obs.Facts[k] {
			i := candidateIndex(k)
			violation(t, "bad-pattern-accepted", fmt.Sprintf("position %s: %q must be rejected (unbalanced %%, unknown function or malformed token) but no diagnostic names its key", cs.Position, cs.Candidates[i]), c03Case{Position: cs.Position, Candidates: []string{cs.Candidates[i]}})
			return
		}
	}
	for k := range obs.Facts {
		if !expBad[k] {
			i := candidateIndex(k)
			what := k
			one := cs
			if i >= 0 && i < len(cs.Candidates) {
				what = fmt.Sprintf("%q", cs.Candidates[i])
				one = c03Case{Position: cs.Position, Candidates: []string{cs.Candidates[i]}}
			}
			violation(t, "good-pattern-rejected", fmt.Sprintf("position %s: %s is a valid pattern but was rejected", cs.Position, what), one)
			return
		}
	}
	if len(good) == 0 || cs.VerdictOnly {
		return
	}
	// pass 2
	gc := c03Config(cs.Position, good)
	spec2, err := singleFile(gc, cfg.Style{}, cfgCase{}.Flags)
	if err != nil {
		t.Fatalf("INFRA: serialiser: %v", err)
	}
	o2 := runInproc(spec2)
	defer o2.cleanup()
	if o2.Res.Exit != 0 || !o2.Exists {
		violation(t, "accepted-set-rejected", fmt.Sprintf("position %s: the candidates accepted in the first pass are rejected together: %v", cs.Position, o2.Report.Errors), c03Case{Position: cs.Position, Candidates: good})
		return
	}
	var ops []fx.Op
	for i := range good {
		if cs.Position == "param" {
			ops = append(ops, fx.Op{Op: "param", ID: fmt.Sprintf("c%d", i)})
		} else {
			ops = append(ops, fx.Op{Op: "get", ID: fmt.Sprintf("h%d", i)})
		}
	}
	*q = append(*q, &c03Pending{cs: c03Case{Position: cs.Position, Candidates: good}, conf: gc,
		cont: &fx.Container{Name: universe().NextName(), Pkg: "app", Type: "Gontainer", Ctor: "NewGontainer", Source: o2.Out, Script: fx.Script{Ops: ops, Timeout: 120}}})
}

func candidateIndex(key string) int {
	p := strings.Split(key, "|")
	if len(p) < 2 {
		return -1
	}
	s := strings.TrimLeft(p[1], "ch")
	n := 0
	if _, err := fmt.Sscanf(s, "%d", &n); err != nil {
		return -1
	}
	return n
}

type c03Pending struct {
	cs   c03Case
	conf cfg.Config
	cont *fx.Container
}

func c03Flush(t tb, q *[]*c03Pending, min int) {
	if len(*q) < min || len(*q) == 0 {
		return
	}
	items := *q
	*q = nil
	var conts []*fx.Container
	for _, it := range items {
		conts = append(conts, it.cont)
	}
	if err := universe().BuildBatch(conts, ""); err != nil {
		t.Fatalf("INFRA: %v", err)
	}
	col := ev.Get()
	for _, it := range items {
		cn := it.cont
		if cn.CompileErr != "" {
			violation(t, "compile:"+compileKey(cn.CompileErr), "accepted patterns produce code that does not compile: "+oneLine(cn.CompileErr), it.cs)
			continue
		}
		if cn.Crashed != "" || cn.Out == nil || !cn.Out.Alive || cn.Out.Hang {
			violation(t, "probe", "probe failed: "+oneLine(cn.Crashed), it.cs)
			continue
		}
		d := ref.NewDI(it.conf, nil)
		b := newBij()
		for i, r := range cn.Out.Res {
			op := it.cont.Script.(fx.Script).Ops[i]
			exp := d.Exec(modelOp(op))
			if exp.Skip {
				col.Exclude("function-argument-not-a-literal-list")
				continue
			}
			one := c03Case{Position: it.cs.Position, Candidates: []string{it.cs.Candidates[i]}}
			if it.cs.Position != "param" {
				// compare only the argument the candidate occupies
				if exp.Err == "" && exp.V != nil && r.V != nil && r.V.O != nil && exp.V.O != nil {
					var ea ref.MV
					var ga fx.V
					if it.cs.Position == "service-arg" {
						ea, ga = exp.V.O.Args[0], r.V.O.Args[0]
					} else {
						ea, ga = exp.V.O.Args[2], r.V.O.Args[2]
					}
					if err := matchV(fmt.Sprintf("%q", it.cs.Candidates[i]), ea, ga, b); err != nil {
						violation(t, "evaluation", fmt.Sprintf("position %s: %v", it.cs.Position, err), one)
					} else {
						col.Label("evaluated-and-matched")
					}
					continue
				}
			}
			if err := matchRes(exp, r, b); err != nil {
				violation(t, "evaluation", fmt.Sprintf("position %s, pattern %q: %v", it.cs.Position, it.cs.Candidates[i], err), one)
				continue
			}
			col.Label("evaluated-and-matched")
		}
	}
}

// c03OnReject: the generator only writes valid patterns; a token-level rejection is a violation.
func c03OnReject(t tb, m behMember, merged cfg.Config, o Outcome) {
	a := ref.Analyse(merged)
	obs := observeVerdict(o)
	// (a failure in code generation counts too: every function argument the generator writes is valid Go)
	if a.Stage(false, false) == "accept" && (obs.Stage == "params" || obs.Stage == "services" || obs.Stage == "decorators" || obs.Stage == "generate") {
		violation(t, "good-pattern-rejected", fmt.Sprintf("a configuration whose patterns are all valid was rejected: %v", o.Report.Errors), behCase{Members: []behMember{m}})
		return
	}
	ev.Get().Exclude("rejected-by-tool")
}

func c03NonTrivial(m behMember, merged cfg.Config) bool {
	for _, p := range merged.Params {
		if p.Val.IsStr() && strings.Contains(p.Val.S, "%") {
			return true
		}
	}
	return false
}

func TestC03(t *testing.T) {
	col := ev.Get()
	var q []*c03Pending
	stored := func(path string) {
		var rc c03Case
		loadRegress(t, path, &rc)
		if rc.Position == "" { // behavioural case
			var bc behCase
			loadRegress(t, path, &bc)
			// a case stored by a part that counts a non-compiling output as the violation is replayed the same way
			behCompileErrIsViolation = strings.HasPrefix(storedKey(path), "compile:")
			behBatch(t, bc, c03NonTrivial, c02Check, nil)
			behCompileErrIsViolation = false
			return
		}
		c03Eval(t, rc, &q)
		c03Flush(t, &q, 1)
	}
	if p := os.Getenv("VERIF_REPLAY"); p != "" {
		stored(p)
		col.Complete()
		return
	}
	for _, f := range regressFiles("C03") {
		stored(f)
		col.Label("regress")
	}

	// (a) bounded exhaustive
	L := pick(3, 5)
	all := c03Strings(L)
	chunk := 400
	idx := 0
	for _, pos := range []string{"param", "service-arg", "decorator-arg"} {
		strs := all
		if pos != "param" {
			strs = c03Strings(3)
		}
		for i := 0; i < len(strs); i += chunk {
			idx++
			if !ev.Mine(idx) {
				continue
			}
			j := i + chunk
			if j > len(strs) {
				j = len(strs)
			}
			c03Eval(t, c03Case{Position: pos, Candidates: strs[i:j]}, &q)
			c03Flush(t, &q, 8)
			if deadlinePassed() {
				return
			}
		}
	}
	if ev.Mine(0) {
		// longer hand-picked tokens beyond the quick bound
		extras := []string{`%a()%`, `%a(1)%`, `%a("x")%`, `%a(1, "x")%`, `%a(%`, `%a)%`, `%a( )%`, `%todo()%`, `%todo("m")%`, `%1()%`, `%é()%`, `%a.a()%`, `%a-1%`,
			`%%a%%`, `%a%%%`, `%%%a%`, `%a%%a%`, `%a% %a%`, `%a%a`, `a%a%a`, `%unknown()%`, `%A()%`, `%a ()%`, `%a()x%`, `%(a)%`, `%a(")%`, "%a(\n)%", `%env("VERIF_UNSET", "d")%`, `%envInt("VERIF_UNSET", 3)%`, `%env()%x`, `100%`, `%`, `%%%`, `%%%%`,
			// separators, brackets and quotes inside string arguments; arguments that are Go expressions rather than plain literals
			`%a("x,y")%`, `%a("x ,y")%`, `%a("a,,b")%`, `%a("1,000", 2)%`, `%a("(")%`, `%a(")")%`, `%a("))")%`, `%a("f(x), g(y)")%`, `%a("a\"b,c")%`,
			`%a((1))%`, `%a(("x"))%`, `%a(int(5))%`, `%a(string("s)"))%`, `%a(float64(2))%`, `%a(1, (2))%`, `%a((1), 2)%`, `%a(((true)))%`,
			`%todo("a,b")%`, `%todo(("later"))%`, `%todo("")%`, `%todo("", "x")%`, `%env("VERIF_UNSET", "1,000")%`, `%env("VERIF_UNSET", ("d)"))%`, `%envInt("VERIF_UNSET", int(8080))%`, `%envInt("VERIF_UNSET", (3))%`, `x%a("p,q")%y%a((7))%`,
			// the registered function is the one the alias table denotes; the same function used by several tokens
			`%a()%`, `%b()%`, `%e()%`, `%b("x")%`, `%e(1)%`, `%b()%-%b()%`, `%a()%%b()%%e()%%a()%`, `%e()%:%e("again")%:%e()%`,
			// a percent sign spelled with an escape inside a string argument
			`%a("100\x25 sure")%`, `%todo("\x25d of \x25s")%`, `%env("VERIF_UNSET", "50\u0025")%`,
			// the documented message of todo is its first argument
			`%todo("first", "second")%`, `%todo("a", "b", "c")%`,
			// single chunks of 64 KiB and more
			"v=%%;" + strings.Repeat("a", 70000) + ";%a%", strings.Repeat("blob ", 20000), "%a%" + strings.Repeat("é", 40000) + "%%" + strings.Repeat("z", 65536)}
		for _, pos := range []string{"param", "service-arg", "decorator-arg"} {
			c03Eval(t, c03Case{Position: pos, Candidates: extras}, &q)
		}
		col.Label("hand-picked-longer-tokens")
	}
	c03Flush(t, &q, 1)
	col.Exhaustive(fmt.Sprintf("every string of length <= %d over {%%, a, 1, ., -, (, ), \", space, é} as parameter value, and every string of length <= 3 as service argument and as decorator argument; every name reachable in the alphabet is declared with one value of each literal type and `a` is also a registered function", L))

	// (b) round trip: any string with every %% doubled evaluates to the original string
	setRapidChecks(pick(20, 200))
	runeGen := rapid.OneOf(
		rapid.RuneFrom([]rune{'%', '%', '"', '\'', '\\', '\n', '\r', '\t', ' ', '`', '$', '@', '!', '{', '}', '(', ')', 'a', 'Z', '0', '\x00', '\x01', '\x7f', '\u00e9', '\u4e16', '\U0001F600', '\u00a0', '\ufeff', '\u2028', '\u202e'}),
		rapid.Rune(),
	)
	rapid.Check(t, func(rt *rapid.T) {
		n := rapid.IntRange(20, 60).Draw(rt, "n")
		var originals, doubled []string
		for i := 0; i < n; i++ {
			s := rapid.StringOfN(runeGen, 0, 24, -1).Draw(rt, "s")
			if !utf8.ValidString(s) {
				continue
			}
			originals = append(originals, s)
			doubled = append(doubled, ref.DoublePercent(s))
		}
		// verdict of the undoubled strings (reference parser decides), values of the doubled ones
		c03Eval(rt, c03Case{Position: "param", Candidates: originals, VerdictOnly: true}, &q)
		c03Eval(rt, c03Case{Position: "param", Candidates: doubled}, &q)
		col.LabelN("round-trip-strings", len(doubled))
		c03Flush(rt, &q, 1)
	})

	// (b3) patterns over parameters that exist only at run time: nothing is declared (or exactly one unrelated parameter),
	// the build runs with --ignore-missing-params, the values arrive through OverrideParam
	if ev.Mine(1) {
		behCompileErrIsViolation = true
		var c behCase
		for v := 0; v < 2; v++ {
			conf := cfg.Config{Meta: cfg.Meta{Pkg: sp("app")}, Services: []cfg.Service{
				{Name: "s", Ctor: sp("fx/lib.NewObj"), Args: []cfg.Val{cfg.Str("%late%"), cfg.Str("x%late%y"), cfg.Str("%%%late%%%"), cfg.Str("%late%%other%")},
					Fields: []cfg.Field{{Name: "FieldA", Val: cfg.Str("%other%")}}, Calls: []cfg.Call{{Method: "Call1", Args: []cfg.Val{cfg.Str("<%late%>")}}}, Tags: []cfg.Tag{{Name: "t"}}},
			}, Decorators: []cfg.Decorator{{Tag: "t", Fn: "fx/lib.Decorate", Args: []cfg.Val{cfg.Str("%late%!")}}}}
			if v == 1 {
				conf.Params = []cfg.Param{{Name: "unrelated", Val: cfg.Int(1)}}
			}
			ops := []fx.Op{{Op: "get", ID: "s"}, {Op: "param", ID: "late"},
				{Op: "overrideParam", ID: "late", Val: &fx.Lit{K: "str", S: "v"}}, {Op: "overrideParam", ID: "other", Val: &fx.Lit{K: "int", I: 7}},
				{Op: "param", ID: "late"}, {Op: "get", ID: "s"}, {Op: "tagged", ID: "t"}}
			c.Members = append(c.Members, behMember{Files: []cfg.Config{conf}, Script: fx.Script{Ops: ops}, IgnoreP: true, Labels: []string{"hand-built:parameters-supplied-at-run-time", fmt.Sprintf("declared-params:%d", len(conf.Params))}})
		}
		behBatch(t, c, func(behMember, cfg.Config) bool { return true }, c02Check, nil)
		behCompileErrIsViolation = false
	}

	// (c) chunk sequences: parameters mixing text, %%, references to every literal type and function calls
	batch := pick(16, 24)
	setRapidChecks(pick(4, 40))
	opts := behaviouralOpts()
	opts.MaxParams = 12
	opts.MaxServices = 2
	opts.Tags, opts.Decorators, opts.Scopes, opts.Getters = false, false, false, false
	opts.FailCtor = false
	opts.Todo = true
	rapid.Check(t, func(rt *rapid.T) {
		if deadlinePassed() {
			rt.Skip("budget used up")
		}
		var c behCase
		for i := 0; i < batch; i++ {
			m, conf := drawMember(rt, opts, 1)
			m.Script = scriptAll(conf)
			// vary the environment the env()/envInt() readers see
			env := map[string]*string{"VERIF_UNSET": nil}
			for _, k := range []string{"VERIF_SET", "VERIF_NUM", "VERIF_NAN"} {
				switch rapid.IntRange(0, 2).Draw(rt, "env-"+k) {
				case 0:
					env[k] = nil
				case 1:
					// spellings of numbers that strconv.Atoi (the documented conversion of envInt) and laxer parsers judge differently
					env[k] = sp(rapid.SampledFrom(map[string][]string{
						"VERIF_SET": {"set %value%", "", " ", "0x10", "%VERIF_NUM%"},
						"VERIF_NUM": {"-17", "+5", "010", "08", "007", "9223372036854775807", "-9223372036854775808", "0"},
						"VERIF_NAN": {"12x", "0x10", "0b101", "0o17", "1_000", "1e3", "", " 7", "7 ", "9223372036854775808", "1.0", "٣", "--1"},
					}[k]).Draw(rt, "envval-"+k))
				default:
					env[k] = sp("42")
				}
			}
			m.Script.Env = env
			c.Members = append(c.Members, m)
		}
		behBatch(rt, c, c03NonTrivial, c02Check, c03OnReject)
	})
	if !deadlinePassed() {
		col.Complete()
	}
}
