//go:build verif

package checks

import (
	"fmt"
	"os"
	"reflect"
	"sort"
	"strings"
	"testing"

	"github.com/gontainer/gontainer-helpers/v3/container"
	"pgregory.net/rapid"

	"verifh/cfg"
	"verifh/ev"
	"verifh/fx"
	"verifh/gen"
	"verifh/ref"
)

// typeStr mirrors the probe's rendering of reflect types (package paths, not names).
func typeStr(t reflect.Type) string {
	if t.Name() != "" {
		if t.PkgPath() != "" {
			return t.PkgPath() + "." + t.Name()
		}
		return t.Name()
	}
	switch t.Kind() {
	case reflect.Ptr:
		return "*" + typeStr(t.Elem())
	case reflect.Slice:
		return "[]" + typeStr(t.Elem())
	case reflect.Interface:
		if t.NumMethod() == 0 {
			return "interface{}"
		}
		return t.String()
	case reflect.Func:
		var in, out []string
		for i := 0; i < t.NumIn(); i++ {
			s := typeStr(t.In(i))
			if t.IsVariadic() && i == t.NumIn()-1 {
				s = "..." + strings.TrimPrefix(s, "[]")
			}
			in = append(in, s)
		}
		for i := 0; i < t.NumOut(); i++ {
			out = append(out, typeStr(t.Out(i)))
		}
		return "func(" + strings.Join(in, ", ") + ") (" + strings.Join(out, ", ") + ")"
	}
	return t.String()
}

// promotedMethods is the API the generated type inherits from the embedded runtime container.
func promotedMethods() map[string]string {
	t := reflect.TypeOf(container.New())
	r := map[string]string{}
	for i := 0; i < t.NumMethod(); i++ {
		m := t.Method(i)
		ft := m.Type
		var in, out []string
		for j := 1; j < ft.NumIn(); j++ {
			s := typeStr(ft.In(j))
			if ft.IsVariadic() && j == ft.NumIn()-1 {
				s = "..." + strings.TrimPrefix(s, "[]")
			}
			in = append(in, s)
		}
		for j := 0; j < ft.NumOut(); j++ {
			out = append(out, typeStr(ft.Out(j)))
		}
		r[m.Name] = "func(" + strings.Join(in, ", ") + ") (" + strings.Join(out, ", ") + ")"
	}
	return r
}

func exportedName(n string) bool { return n != "" && n[0] >= 'A' && n[0] <= 'Z' }

// expectedMethodSet is C13's rule.
func expectedMethodSet(d *ref.DI, ownPath string) map[string]string {
	exp := promotedMethods()
	for _, g := range d.Getters() {
		t := strings.ReplaceAll(g.Type, "fx/g/?", ownPath)
		// reflection (and every caller outside the package) only sees exported methods
		if exportedName(g.Getter) {
			exp[g.Getter] = "func() (" + t + ", error)"
			exp[g.Getter+"InContext"] = "func(context.Context) (" + t + ", error)"
		}
		if g.Must {
			exp["Must"+g.Getter] = "func() (" + t + ")"
			exp["Must"+g.Getter+"InContext"] = "func(context.Context) (" + t + ")"
		}
	}
	return exp
}

// c13Script: method set, then for every getter Get / G / GInContext / MustG.
func c13Script(c cfg.Config) fx.Script {
	ops := []fx.Op{{Op: "methods"}}
	for _, s := range c.Services {
		if s.Getter == nil || s.IsTodo() || !exportedName(*s.Getter) {
			continue
		}
		ops = append(ops,
			fx.Op{Op: "get", ID: s.Name},
			fx.Op{Op: "getter", ID: *s.Getter, Tag: s.Name},
			fx.Op{Op: "getter", ID: *s.Getter, Ctx: "A", Tag: s.Name},
			fx.Op{Op: "get", ID: s.Name, Ctx: "A"},
			fx.Op{Op: "must", ID: "Must" + *s.Getter, Tag: s.Name},
			fx.Op{Op: "must", ID: "Must" + *s.Getter, Ctx: "B", Tag: s.Name},
			fx.Op{Op: "get", ID: s.Name, Ctx: "B"},                           // the context-bound must-getter and GetInContext see one context
			fx.Op{Op: "must", ID: "Must" + *s.Getter, Ctx: "B", Tag: s.Name}, // and so does a second call
			fx.Op{Op: "getter", ID: *s.Getter, Tag: s.Name},                  // plain getters: every call is a context of its own
			fx.Op{Op: "must", ID: "Must" + *s.Getter, Tag: s.Name},
		)
	}
	return fx.Script{Ops: ops, Env: scriptAll(c).Env}
}

func c13NonTrivial(m behMember, merged cfg.Config) bool {
	for _, s := range merged.Services {
		if s.Getter == nil {
			continue
		}
		if s.Must != nil || (merged.Meta.DefaultMust != nil && *merged.Meta.DefaultMust) {
			return true
		}
		if s.Type != nil && !strings.HasPrefix(*s.Type, "*") {
			return true
		}
	}
	return false
}

// checkMethodSet compares the reflected method set and type name with C13's rule.
func checkMethodSet(t tb, bc behContext, d *ref.DI, got fx.Res) bool {
	ownPath := "fx/g/" + bc.Cont.Name
	_, typ, _ := expectedNames(bc.Merged)
	exp := expectedMethodSet(d, ownPath)
	gotM := map[string]string{}
	for _, m := range got.Methods {
		gotM[m.Name] = m.Sig
	}
	var names []string
	for n := range exp {
		names = append(names, n)
	}
	for n := range gotM {
		if _, ok := exp[n]; !ok {
			names = append(names, n)
		}
	}
	sort.Strings(names)
	for _, n := range names {
		e, eok := exp[n]
		g, gok := gotM[n]
		switch {
		case eok && !gok:
			violation(t, "method-missing", fmt.Sprintf("generated type lacks method %s %s", n, e), bc.One)
			return false
		case !eok && gok:
			violation(t, "method-unexpected", fmt.Sprintf("generated type has unexpected method %s %s", n, g), bc.One)
			return false
		case e != g:
			violation(t, "method-signature", fmt.Sprintf("method %s has signature %s, expected %s", n, g, e), bc.One)
			return false
		}
	}
	if got.TypeName != typ {
		violation(t, "type-name", fmt.Sprintf("container type is %s, expected %s", got.TypeName, typ), bc.One)
		return false
	}
	return true
}

func c13Check(t tb, bc behContext) {
	col := ev.Get()
	d := ref.NewDI(bc.Merged, bc.M.Script.Env)
	b := newBij()
	mustOf := map[string]bool{}
	for _, g := range d.Getters() {
		mustOf[g.Getter] = g.Must
	}
	nilSvc := map[string]bool{} // services that are a nil interface at run time (hand-built members only; not modelled)
	for _, l := range bc.M.Labels {
		if strings.HasPrefix(l, "nil-service:") {
			nilSvc[strings.TrimPrefix(l, "nil-service:")] = true
		}
	}
	inconvertible := map[string]bool{} // services whose object cannot be converted to the declared getter type (hand-built members only)
	for _, l := range bc.M.Labels {
		if strings.HasPrefix(l, "inconvertible:") {
			inconvertible[strings.TrimPrefix(l, "inconvertible:")] = true
		}
	}
	res := bc.Cont.Out.Res
	if len(res) != len(bc.M.Script.Ops) {
		violation(t, "probe-truncated", "probe returned fewer results than operations", bc.One)
		return
	}
	for i, op := range bc.M.Script.Ops {
		got := res[i]
		switch op.Op {
		case "methods":
			if !checkMethodSet(t, bc, d, got) {
				return
			}
			col.Label("method-set-matched")
		case "get":
			exp := d.Exec(modelOp(op))
			if exp.Skip {
				continue
			}
			if err := matchRes(exp, got, b); err != nil {
				violation(t, "get:"+classifyMismatch(err.Error()), err.Error(), bc.One)
				return
			}
		case "getter":
			if got.Missing {
				violation(t, "getter-missing", "getter "+op.ID+" does not exist on the generated type", bc.One)
				return
			}
			exp := d.Exec(ref.ProbeOp{Op: "get", ID: op.Tag, Ctx: op.Ctx})
			if nilSvc[op.Tag] {
				// nil converts to pointer / interface types and to nothing else
				if !inconvertible[op.Tag] {
					if got.Err != "" || got.Panic != "" {
						violation(t, "getter:nil-service", fmt.Sprintf("getter %s of a nil service with a nillable type: unexpected error %q", op.ID, got.Err+got.Panic), bc.One)
						return
					}
					col.Label("getter-nil-service-nillable-type")
					continue
				}
				exp = ref.Exp{}
			}
			if exp.Skip {
				continue
			}
			if inconvertible[op.Tag] && exp.Err == "" {
				// Get succeeds, but the object cannot be converted to the declared type: the getter reports that
				suffix := "(): "
				if op.Ctx != "" {
					suffix = "InContext(): "
				}
				exp = ref.Exp{Err: "." + op.ID + suffix}
				col.Label("getter-conversion-error-path")
			}
			if err := matchRes(exp, got, b); err != nil {
				violation(t, "getter:"+classifyMismatch(err.Error()), "getter "+op.ID+": "+err.Error(), bc.One)
				return
			}
			col.Label("getter-called")
			if exp.Err != "" {
				col.Label("getter-error-path")
			}
		case "must":
			g := strings.TrimPrefix(op.ID, "Must")
			if !mustOf[g] {
				if !got.Missing {
					violation(t, "must-getter-unexpected", "method "+op.ID+" exists although must_getter is off", bc.One)
					return
				}
				continue
			}
			if got.Missing {
				violation(t, "must-getter-missing", "method "+op.ID+" does not exist although must_getter is on", bc.One)
				return
			}
			exp := d.Exec(ref.ProbeOp{Op: "get", ID: op.Tag, Ctx: op.Ctx})
			if nilSvc[op.Tag] {
				if !inconvertible[op.Tag] {
					if got.Panic != "" {
						violation(t, "must:nil-service", fmt.Sprintf("must-getter %s of a nil service with a nillable type panicked: %s", op.ID, got.Panic), bc.One)
						return
					}
					continue
				}
				exp = ref.Exp{}
			}
			if exp.Skip {
				continue
			}
			if exp.Err != "" || inconvertible[op.Tag] {
				exp = ref.Exp{Panic: true}
				col.Label("must-getter-panic-path")
			}
			if err := matchRes(exp, got, b); err != nil {
				violation(t, "must:"+classifyMismatch(err.Error()), "must-getter "+op.ID+": "+err.Error(), bc.One)
				return
			}
			col.Label("must-getter-called")
		}
	}
}

func TestC13(t *testing.T) {
	col := ev.Get()
	behCrashIsViolation = func(crash string) bool {
		return strings.Contains(crash, "does not implement expected interface")
	}
	stored := func(path string) {
		if payloadHas(t, path, "config") { // a verdict case stored as the configuration itself
			var cc cfgCase
			loadRegress(t, path, &cc)
			verdictEvalAndClean(t, cc)
			return
		}
		var rc behCase
		loadRegress(t, path, &rc)
		if len(rc.Members) == 1 && len(rc.Members[0].Script.Ops) == 0 && len(rc.Members[0].Files) == 1 {
			verdictEvalAndClean(t, cfgCase{C: rc.Members[0].Files[0], Style: rc.Members[0].Style})
			return
		}
		behCompileErrIsViolation = strings.HasPrefix(storedKey(path), "compile:")
		behBatch(t, rc, c13NonTrivial, c13Check, nil)
		behCompileErrIsViolation = false
	}
	if p := os.Getenv("VERIF_REPLAY"); p != "" {
		stored(p)
		col.Complete()
		return
	}
	for _, f := range regressFiles("C13") {
		stored(f)
		col.Label("regress")
	}

	// (1) rejections: the collision space is enumerated completely
	verdictCase := func(c cfg.Config, label string) {
		a := ref.Analyse(c)
		spec, err := singleFile(c, cfg.Style{}, cfgCase{}.Flags)
		if err != nil {
			col.Exclude("serialiser-self-check")
			return
		}
		o := runInproc(spec)
		defer o.cleanup()
		col.Case(ev.Hash(c), true)
		col.Label(label)
		if key, what := compareVerdict(a, cfgCase{}.Flags, o); key != "" {
			violation(t, "verdict:"+label+":"+key, what+" :: "+oneLine(spec.Files[0].Content), behCase{Members: []behMember{{Files: []cfg.Config{c}}}})
			return
		}
		if o.Res.Exit == 0 {
			col.Label("verdict-accepted:" + label)
		}
	}
	base := func() cfg.Config { return cfg.Config{Meta: cfg.Meta{Pkg: sp("app")}} }
	reserved := []string{"Container"}
	for n := range promotedMethods() {
		reserved = append(reserved, n)
	}
	sort.Strings(reserved)
	idx := 0
	for _, g := range reserved {
		idx++
		if ev.Mine(idx) {
			c := base()
			c.Services = []cfg.Service{{Name: "a", Ctor: sp("fx/lib.NewObj"), Getter: sp(g)}}
			verdictCase(c, "reserved-getter")
		}
	}
	for _, g := range []string{"MustX", "Must", "MustGetA", "GetAInContext", "InContext", "XInContext", "MustXInContext"} {
		idx++
		if ev.Mine(idx) {
			c := base()
			c.Services = []cfg.Service{{Name: "a", Ctor: sp("fx/lib.NewObj"), Getter: sp(g)}}
			verdictCase(c, "must-prefix-or-incontext-suffix")
		}
	}
	for _, g := range []string{"GetA", "Mustx", "MusT", "InContextX", "GetInContextual", "container", "get", "Get_1"} {
		idx++
		if ev.Mine(idx) {
			c := base()
			c.Services = []cfg.Service{{Name: "a", Ctor: sp("fx/lib.NewObj"), Getter: sp(g)}}
			verdictCase(c, "legal-getter")
		}
	}
	for _, dm := range []*bool{nil, bp(true), bp(false)} {
		for _, m := range []*bool{nil, bp(true), bp(false)} {
			for _, hasGetter := range []bool{true, false} {
				idx++
				if !ev.Mine(idx) {
					continue
				}
				c := base()
				c.Meta.DefaultMust = dm
				s := cfg.Service{Name: "a", Ctor: sp("fx/lib.NewObj"), Must: m}
				if hasGetter {
					s.Getter = sp("GetA")
				}
				c.Services = []cfg.Service{s}
				verdictCase(c, "must-getter-truth-table")
			}
		}
	}
	for _, pair := range [][2]string{{"GetA", "GetA"}, {"X", "X"}} {
		for _, todoSecond := range []bool{false, true} {
			idx++
			if !ev.Mine(idx) {
				continue
			}
			c := base()
			second := cfg.Service{Name: "b", Value: sp("fx/lib.GlobalVal"), Getter: sp(pair[1])}
			if todoSecond {
				second = cfg.Service{Name: "b", Todo: bp(true), Getter: sp(pair[1])}
			}
			c.Services = []cfg.Service{{Name: "a", Ctor: sp("fx/lib.NewObj"), Getter: sp(pair[0])}, second}
			verdictCase(c, "duplicate-getter")
		}
	}
	col.Exhaustive("rejections: every method and the field of the embedded container as getter, Must-prefix / InContext-suffix variants, the 18-row must_getter x default_must_getter x getter truth table, equal getters on two services")

	// (2) accepted configurations: method set by reflection, getter calls, must-getter panics
	batch := pick(20, 32)
	setRapidChecks(pick(5, 45))
	opts := behaviouralOpts()
	opts.PkgMain = false
	rapid.Check(t, func(rt *rapid.T) {
		if deadlinePassed() {
			rt.Skip("budget used up")
		}
		var c behCase
		k := rapid.IntRange(batch/2, batch).Draw(rt, "batch")
		for i := 0; i < k; i++ {
			o := opts
			m, conf := drawMember(rt, o, 2)
			m.Script = c13Script(conf)
			c.Members = append(c.Members, m)
		}
		behBatch(rt, c, c13NonTrivial, c13Check, nil)
	})
	// (2b) hand-built: the declared getter type does not fit the object (Get succeeds, the getter must report the failed
	// conversion and the must-getters must panic), next to fitting controls; with the default names and with own names
	if ev.Mine(1) {
		var c behCase
		for v := 0; v < 2; v++ {
			conf := cfg.Config{Meta: cfg.Meta{Pkg: sp("app")}, Services: []cfg.Service{
				{Name: "v", Ctor: sp("fx/lib.NewVal"), Getter: sp("GetV"), Type: sp("*fx/lib.Obj"), Must: bp(true)},
				{Name: "o", Ctor: sp("fx/lib.NewObj"), Getter: sp("GetO"), Type: sp("fx/lib.Val"), Must: bp(true)},
				{Name: "x", Ctor: sp("fx/lib.NewObj"), Getter: sp("GetX"), Type: sp("*fx/libx.Obj"), Must: bp(true)}, // the same type name in another package
				{Name: "ok", Ctor: sp("fx/lib.NewObj"), Getter: sp("GetOk"), Type: sp("*fx/lib.Obj"), Must: bp(true)},
				{Name: "any", Ctor: sp("fx/lib.NewVal"), Getter: sp("GetAny"), Must: bp(true)},
				{Name: "nv", Ctor: sp("fx/lib.NewNil"), Getter: sp("GetNv"), Type: sp("fx/lib.Val"), Must: bp(true)},  // nil cannot become a struct value
				{Name: "np", Ctor: sp("fx/lib.NewNil"), Getter: sp("GetNp"), Type: sp("*fx/lib.Obj"), Must: bp(true)}, // but a nil pointer
				{Name: "ni", Ctor: sp("fx/lib.NewNil"), Getter: sp("GetNi"), Must: bp(true)},                          // and a nil interface{}
			}}
			if v == 1 {
				conf.Meta.Type, conf.Meta.Ctor = sp("Box"), sp("NewBox")
				conf.Services[0].Scope, conf.Services[1].Scope = sp("non_shared"), sp("contextual")
			}
			c.Members = append(c.Members, behMember{Files: []cfg.Config{conf}, Script: c13Script(conf), Labels: []string{"hand-built:getter-type-does-not-fit", "inconvertible:v", "inconvertible:o", "inconvertible:x", "inconvertible:nv", "nil-service:nv", "nil-service:np", "nil-service:ni"}})
		}
		behBatch(t, c, c13NonTrivial, c13Check, nil)
	}
	// (2c) hand-built: placeholders (todo: true) that declare getters - equal to a real service's getter, reserved, with
	// must_getter and type: a placeholder adds no methods, so none of this may collide or fail to compile
	if ev.Mine(2) {
		behCompileErrIsViolation = true
		var c behCase
		for v := 0; v < 2; v++ {
			conf := cfg.Config{Meta: cfg.Meta{Pkg: sp("app")}, Services: []cfg.Service{
				{Name: "ph1", Todo: bp(true), Getter: sp("GetX")},
				{Name: "ph2", Todo: bp(true), Getter: sp("GetParam"), Must: bp(true)},
				{Name: "ph3", Todo: bp(true), Getter: sp("GetY"), Must: bp(true), Type: sp("*fx/lib.Obj")},
				{Name: "ph4", Todo: bp(true), Getter: sp("GetX")},
				{Name: "real", Ctor: sp("fx/lib.NewObj"), Getter: sp("GetX"), Type: sp("*fx/lib.Obj"), Must: bp(true)},
				{Name: "real2", Ctor: sp("fx/lib.NewObj"), Getter: sp("GetZ")},
			}}
			if v == 1 {
				conf.Meta.DefaultMust = bp(true)
			}
			c.Members = append(c.Members, behMember{Files: []cfg.Config{conf}, Script: c13Script(conf), Labels: []string{"hand-built:placeholders-declaring-getters"}})
		}
		behBatch(t, c, c13NonTrivial, c13Check, nil)
		behCompileErrIsViolation = false
	}
	// (2d) hand-built: getter types of the container's own package whose names are the identifiers the getter templates
	// use themselves (parameter ctx, results and locals): the type text must keep denoting the type
	if ev.Mine(3) {
		behCompileErrIsViolation = true
		var c behCase
		for v := 0; v < 2; v++ {
			conf := cfg.Config{Meta: cfg.Meta{Pkg: sp("app")}}
			for i, tn := range []string{"*ctx", `*".".ctx`, "*r", "*err", `*".".result`, `*".".r`} {
				conf.Services = append(conf.Services, cfg.Service{Name: fmt.Sprintf("t%d", i), Ctor: sp([]string{"NewObj", `".".NewObj`}[i%2]), Getter: sp(fmt.Sprintf("GetT%d", i)), Type: sp(tn), Must: bp(i%3 != 0)})
			}
			if v == 1 {
				conf.Meta.DefaultMust = bp(true)
				conf.Services[0].Scope, conf.Services[1].Scope = sp("contextual"), sp("non_shared")
			}
			c.Members = append(c.Members, behMember{Files: []cfg.Config{conf}, Script: c13Script(conf), LocalExtra: ref.LocalAliasSource, Labels: []string{"hand-built:getter-types-named-like-template-identifiers"}})
		}
		behBatch(t, c, c13NonTrivial, c13Check, nil)
		behCompileErrIsViolation = false
	}
	// (3) documented default names: package main / Gontainer / NewGontainer (linked one by one)
	for i := 0; i < pick(1, 4); i++ {
		if !ev.Mine(i) {
			continue
		}
		c := cfg.Config{Services: []cfg.Service{{Name: "a", Ctor: sp("fx/lib.NewObj"), Getter: sp("GetA"), Type: sp("*fx/lib.Obj")},
			{Name: "v", Ctor: sp("fx/lib.NewVal"), Getter: sp("GetV"), Type: sp("fx/lib.Val"), Must: bp(true)}}}
		if i%2 == 1 {
			c.Meta.DefaultMust = bp(true)
		}
		m := behMember{Files: []cfg.Config{c}, Script: c13Script(c), Labels: []string{"default-names:main/Gontainer/NewGontainer"}}
		behBatch(t, behCase{Members: []behMember{m}}, c13NonTrivial, c13Check, nil)
	}
	if !deadlinePassed() {
		col.Complete()
	}
}

var _ = gen.All
