//go:build verif

package checks

import (
	"fmt"
	"testing"

	"pgregory.net/rapid"

	"verifh/cfg"
	"verifh/ev"
)

func c04NonTrivial(m behMember, merged cfg.Config) bool {
	type carrier struct {
		prio int
	}
	byTag := map[string][]carrier{}
	for _, s := range merged.Services {
		if s.IsTodo() {
			continue
		}
		decs := 0
		for _, t := range s.Tags {
			byTag[t.Name] = append(byTag[t.Name], carrier{t.Prio})
			for _, d := range merged.Decorators {
				if d.Tag == t.Name {
					decs++
				}
			}
		}
		if decs >= 2 {
			return true
		}
	}
	for _, cs := range byTag {
		if len(cs) < 2 {
			continue
		}
		seen := map[int]bool{}
		for _, c := range cs {
			if seen[c.prio] || c.prio < 0 {
				return true
			}
			seen[c.prio] = true
		}
	}
	return false
}

func c04Check(t tb, bc behContext) {
	if checkAgainstModel(t, bc, "") {
		ev.Get().Label("matched-model")
		for _, r := range bc.Cont.Out.Res {
			if r.Op == "tagged" && len(r.L) >= 2 {
				ev.Get().Label("tagged-list-with->=2-elements")
			}
		}
	}
}

func TestC04(t *testing.T) {
	col := ev.Get()
	var rc behCase
	if replayPayload(t, &rc) {
		behBatch(t, rc, c04NonTrivial, c04Check, nil)
		return
	}
	for _, f := range regressFiles("C04") {
		var c behCase
		loadRegress(t, f, &c)
		behBatch(t, c, c04NonTrivial, c04Check, nil)
		col.Label("regress")
	}
	// hand-built: one decorator function declared many times for one tag with argument lists that differ but print
	// alike, exact repetitions included; as one file and distributed over two and three files
	if ev.Mine(0) {
		argLists := [][]cfg.Val{
			{cfg.Str("x y")}, {cfg.Str("x"), cfg.Str("y")}, {cfg.Int(1)}, {cfg.Str("1")}, {cfg.Float(1.0)}, {cfg.Bool(true)}, {cfg.Str("true")},
			{cfg.Null()}, {cfg.Str("<nil>")}, nil, {cfg.Str("")}, {cfg.Str("x y")}, {cfg.Str("[x y]")}, {cfg.Str("x"), cfg.Str("y")}, {cfg.Int(1), cfg.Int(2)}, {cfg.Str("1 2")},
		}
		var decs []cfg.Decorator
		for i, a := range argLists {
			tag := "t"
			if i%5 == 4 {
				tag = "u" // a second tag of the same services, interleaved in declaration order
			}
			decs = append(decs, cfg.Decorator{Tag: tag, Fn: "fx/lib.Decorate", Args: a})
		}
		svcs := []cfg.Service{
			{Name: "a", Ctor: sp("fx/lib.NewObj"), Tags: []cfg.Tag{{Name: "t"}, {Name: "u"}}},
			{Name: "b", Ctor: sp("fx/lib.NewObj"), Tags: []cfg.Tag{{Name: "u", Prio: 5}, {Name: "t", Prio: -3}}},
			{Name: "c", Ctor: sp("fx/lib.NewObj"), Args: []cfg.Val{cfg.Str("!tagged t"), cfg.Str("!tagged\nu"), cfg.Str("!tagged\r\n    t"), cfg.Str("!tagged \t u")},
				Fields: []cfg.Field{{Name: "FieldA", Val: cfg.Str("!tagged\ft")}}, Calls: []cfg.Call{{Method: "Call1", Args: []cfg.Val{cfg.Str("!tagged\n\nu")}}}},
		}
		whole := cfg.Config{Meta: cfg.Meta{Pkg: sp("app")}, Services: svcs, Decorators: decs}
		var c behCase
		for _, cut := range [][]int{nil, {6}, {3, 11}} {
			var files []cfg.Config
			prev := 0
			for _, at := range append(cut, len(decs)) {
				f := cfg.Config{Decorators: decs[prev:at]}
				if prev == 0 {
					f.Meta, f.Services = whole.Meta, svcs
				}
				files = append(files, f)
				prev = at
			}
			c.Members = append(c.Members, behMember{Files: files, Script: scriptAll(whole), Labels: []string{"hand-built:look-alike-decorator-arguments", fmt.Sprintf("files:%d", len(files))}})
		}
		behBatch(t, c, c04NonTrivial, c04Check, nil)
	}
	batch := pick(20, 32)
	setRapidChecks(pick(5, 50))
	opts := behaviouralOpts()
	opts.TagHeavy = true
	opts.ValueKinds = false
	opts.FailCtor = false
	opts.Todo = false
	opts.MaxServices = 6
	rapid.Check(t, func(rt *rapid.T) {
		if deadlinePassed() {
			rt.Skip("budget used up")
		}
		var c behCase
		k := rapid.IntRange(batch/2, batch).Draw(rt, "batch")
		for i := 0; i < k; i++ {
			m, conf := drawMember(rt, opts, 3)
			m.Script = scriptAll(conf)
			c.Members = append(c.Members, m)
		}
		behBatch(rt, c, c04NonTrivial, c04Check, nil)
	})
	if !deadlinePassed() {
		col.Complete()
	}
}
