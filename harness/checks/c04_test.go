//go:build verif

package checks

import (
	"testing"

	"pgregory.net/rapid"

	"verifh/cfg"
	"verifh/ev"
)

func c04NonTrivial(m behMember, merged cfg.Config) bool {
	type carrier struct {
		prio int
	}
	byTag := map[string][]carrier{}
	for _, s := range merged.Services {
		if s.IsTodo() {
			continue
		}
		decs := 0
		for _, t := range s.Tags {
			byTag[t.Name] = append(byTag[t.Name], carrier{t.Prio})
			for _, d := range merged.Decorators {
				if d.Tag == t.Name {
					decs++
				}
			}
		}
		if decs >= 2 {
			return true
		}
	}
	for _, cs := range byTag {
		if len(cs) < 2 {
			continue
		}
		seen := map[int]bool{}
		for _, c := range cs {
			if seen[c.prio] || c.prio < 0 {
				return true
			}
			seen[c.prio] = true
		}
	}
	return false
}

func c04Check(t tb, bc behContext) {
	if checkAgainstModel(t, bc, "") {
		ev.Get().Label("matched-model")
		for _, r := range bc.Cont.Out.Res {
			if r.Op == "tagged" && len(r.L) >= 2 {
				ev.Get().Label("tagged-list-with->=2-elements")
			}
		}
	}
}

func TestC04(t *testing.T) {
	col := ev.Get()
	var rc behCase
	if replayPayload(t, &rc) {
		behBatch(t, rc, c04NonTrivial, c04Check, nil)
		return
	}
	for _, f := range regressFiles("C04") {
		var c behCase
		loadRegress(t, f, &c)
		behBatch(t, c, c04NonTrivial, c04Check, nil)
		col.Label("regress")
	}
	batch := pick(20, 32)
	setRapidChecks(pick(5, 50))
	opts := behaviouralOpts()
	opts.TagHeavy = true
	opts.ValueKinds = false
	opts.FailCtor = false
	opts.Todo = false
	opts.MaxServices = 6
	rapid.Check(t, func(rt *rapid.T) {
		if deadlinePassed() {
			rt.Skip("budget used up")
		}
		var c behCase
		k := rapid.IntRange(batch/2, batch).Draw(rt, "batch")
		for i := 0; i < k; i++ {
			m, conf := drawMember(rt, opts, 3)
			m.Script = scriptAll(conf)
			c.Members = append(c.Members, m)
		}
		behBatch(rt, c, c04NonTrivial, c04Check, nil)
	})
	if !deadlinePassed() {
		col.Complete()
	}
}
