//go:build verif

package checks

import (
	"bytes"
	"fmt"
	"go/parser"
	"go/token"
	"os"
	"os/exec"
	"path/filepath"
	"sort"
	"strconv"
	"strings"
	"sync"
	"testing"
	"time"

	"gopkg.in/yaml.v3"
	"pgregory.net/rapid"

	"verifh/cfg"
	"verifh/ev"
	"verifh/gen"
	"verifh/ref"
	"verifh/sut"
)

type c12Case struct {
	Data     []byte   `json:"data"`
	Flags    uint8    `json:"flags"` // bit0 quiet, bit1 stub, bit2 ignore params, bit3 ignore services
	Shape    uint8    `json:"shape"` // how the bytes become files and patterns
	Patterns []string `json:"patterns,omitempty"`
	Label    string   `json:"label,omitempty"`
	FileName string   `json:"file_name,omitempty"` // if set: Data is written under this (relative) name and the linked binary is run on it
}

func c12Flags(b uint8) sut.Flags {
	return sut.Flags{Quiet: b&1 != 0, Stub: b&2 != 0, IgnoreMissingParams: b&4 != 0, IgnoreMissingServices: b&8 != 0}
}

var c12EnvOnce sync.Once

// c12Env keeps goimports' package search (triggered by unknown identifiers in function
// arguments) away from the real module cache: it is slow and environment dependent.
func c12Env() {
	c12EnvOnce.Do(func() {
		d := filepath.Join(ev.ScratchDir(), "emptygopath")
		_ = os.MkdirAll(filepath.Join(d, "mod"), 0o755)
		os.Setenv("GOPATH", d)
		os.Setenv("GOMODCACHE", filepath.Join(d, "mod"))
		os.Setenv("GOFLAGS", "-mod=mod")
		os.Setenv("GOPROXY", "off")
	})
}

// lenientGraph over-approximates the dependency relation of an arbitrary decoded document.
func lenientGraph(doc any) *ref.Graph {
	g := ref.NewGraph()
	top, ok := doc.(map[string]any)
	if !ok {
		return g
	}
	var strs func(v any, f func(string))
	strs = func(v any, f func(string)) {
		switch x := v.(type) {
		case string:
			f(x)
		case []any:
			for _, e := range x {
				strs(e, f)
			}
		case map[string]any:
			for _, e := range x {
				strs(e, f)
			}
		}
	}
	edges := func(from string, v any) {
		strs(v, func(s string) {
			if strings.HasPrefix(s, "@") {
				g.Edge(from, ref.SvcNode(s[1:]))
			}
			if strings.HasPrefix(s, "!tagged") {
				f := strings.Fields(s)
				if len(f) > 1 {
					g.Edge(from, ref.TagNode(f[len(f)-1]))
				}
			}
			parts := strings.Split(s, "%")
			for i := 1; i < len(parts); i += 2 {
				g.Edge(from, ref.ParamNode(parts[i]))
			}
		})
	}
	if ps, ok := top["parameters"].(map[string]any); ok {
		for k, v := range ps {
			edges(ref.ParamNode(k), v)
		}
	}
	if ss, ok := top["services"].(map[string]any); ok {
		for k, v := range ss {
			m, ok := v.(map[string]any)
			if !ok {
				continue
			}
			edges(ref.SvcNode(k), m["arguments"])
			edges(ref.SvcNode(k), m["calls"])
			edges(ref.SvcNode(k), m["fields"])
			strs(m["tags"], func(tag string) {
				g.Edge(ref.TagNode(tag), ref.SvcNode(k))
				g.Edge(ref.SvcNode(k), ref.DecoratedNode(tag))
			})
			if tl, ok := m["tags"].([]any); ok {
				for _, t := range tl {
					if tm, ok := t.(map[string]any); ok {
						if n, ok := tm["name"].(string); ok {
							g.Edge(ref.TagNode(n), ref.SvcNode(k))
							g.Edge(ref.SvcNode(k), ref.DecoratedNode(n))
						}
					}
				}
			}
		}
	}
	if ds, ok := top["decorators"].([]any); ok {
		for i, d := range ds {
			m, ok := d.(map[string]any)
			if !ok {
				continue
			}
			if tag, ok := m["tag"].(string); ok {
				g.Edge(ref.DecoratedNode(tag), ref.DecNode(i))
			}
			edges(ref.DecNode(i), m["arguments"])
		}
	}
	return g
}

func denseSCC(g *ref.Graph, limit int) bool {
	for _, comp := range g.SCCs() {
		if len(comp) <= limit {
			continue
		}
		in := map[int]bool{}
		for _, v := range comp {
			in[v] = true
		}
		e := 0
		for _, v := range comp {
			for _, w := range g.Adj[v] {
				if in[w] {
					e++
				}
			}
		}
		if e > 3*limit+3 {
			return true
		}
	}
	return false
}

// c12Run is the single entry point used by the rapid parts, the corpus replay and the
// native fuzz target. It returns "" when the run obeyed the contract, a violation
// description otherwise, and a label of how far the input got.
// c12BuildVersion: the build version the in-process command is constructed with is part of the input
// (shape/5 selects it): releases, a pre-release with build metadata, semver shorthands, non-semantic names.
var c12BuildVersions = []string{"0.1.0", "1.4.2", "v1.4.2", "2.0.0-rc.1+b.5", "1", "v0", "1.4", "dev-main", "", "v"}

func c12BuildVersion(shape uint8) string { return c12BuildVersions[int(shape/5)%len(c12BuildVersions)] }

// c12VersionLines: declared versions in every shape (YAML kinds, shorthands, prefixes, suffixes, oversized numbers).
var c12VersionLines = []string{
	`"1"`, `"0"`, `"1.4"`, `"0.1"`, `"v1"`, `"v1.4.2"`, `1.4.2`, `0.1.0`, `"1.4.2-rc.1"`, `"1.4.2+b"`, `"1.4.2-"`, `"1.4.2+"`, `"1..2"`, `"1.4.2.1"`, `".1"`, `"1."`,
	`""`, `" "`, `"-"`, `"+"`, `"."`, `1`, `1.4`, `-1`, `~`, `[]`, `{}`, `["1"]`, `{a: 1}`, `"01.4.2"`, `"1.04.2"`, `"99999999999999999999.1.1"`, `"1.99999999999999999999.0"`,
	`"1.4.2-rc..1"`, `"1.4.2-01"`, `"１.4.2"`, `"1.4.2\n"`, `!!str 1`, `!!int "1"`, `true`, `0x1`, `1e3`, `"1e3"`, `.inf`,
}

// c12FileName runs the linked binary on one input file with a hostile name, given as a relative pattern.
func c12FileName(t tb, c c12Case) bool {
	col := ev.Get()
	spec := Spec{Files: []File{{Name: c.FileName, Content: string(c.Data)}}, Flags: sut.Flags{Quiet: c.Flags&1 != 0, Spelling: int(c.Flags>>4) % 4}}
	o := runBinary(spec, nil)
	col.Case(ev.HashStr("file-name", c.FileName, fmt.Sprint(c.Flags), string(c.Data)), true)
	col.Label("hostile-file-name")
	bad := o.Res.TimedOut || o.Res.Exit < 0 || o.Res.Exit > 1 || strings.Contains(o.Res.Stderr, "panic:") || strings.Contains(o.Res.Stderr, "goroutine ")
	exit, to, stderr := o.Res.Exit, o.Res.TimedOut, o.Res.Stderr
	o.cleanup()
	if bad {
		violation(t, "panic", fmt.Sprintf("input file named %q: exit status %d, timed out %v: %s", c.FileName, exit, to, oneLine(stderr)), c)
		return false
	}
	return true
}

func c12Run(c c12Case) (violationKey, what, reached string) {
	c12Env()
	if len(c.Data) > 64<<10 {
		return "", "", "skipped:too-large"
	}
	var doc any
	parses := yaml.Unmarshal(c.Data, &doc) == nil
	if parses && denseSCC(lenientGraph(doc), 7) {
		return "", "", "skipped:dense-cycles"
	}
	dir := scratch("c12")
	defer os.RemoveAll(dir)
	write := func(name string, b []byte) { _ = os.WriteFile(filepath.Join(dir, name), b, 0o644) }
	var pats []string
	switch c.Shape % 5 {
	case 0:
		write("a.yaml", c.Data)
		pats = []string{"a.yaml"}
	case 1:
		h := len(c.Data) / 2
		write("a.yaml", c.Data[:h])
		write("b.yaml", c.Data[h:])
		pats = []string{"a.yaml", "b.yaml"}
	case 2:
		write("a.yaml", c.Data)
		pats = []string{"a.yaml", "*.yaml"}
	case 3:
		write("a.yaml", c.Data)
		write("b.yaml", []byte("parameters: {zz: 1}\n"))
		pats = []string{"*.yaml"}
	case 4:
		write("a.yaml", c.Data)
		pats = []string{"a.yaml"}
		pats = append(pats, c.Patterns...)
	}
	if c.Shape%5 == 4 {
		// directory entries a wildcard can match that are no regular files: a dangling link, a link to itself, a link to a
		// directory, a link through a regular file (stat fails on them although Glob lists them)
		_ = os.Symlink("nowhere.yaml", filepath.Join(dir, "dangling.yaml"))
		_ = os.Symlink("loop.yaml", filepath.Join(dir, "loop.yaml"))
		_ = os.Symlink("out", filepath.Join(dir, "dirlink.yaml"))
		_ = os.Symlink("a.yaml/x", filepath.Join(dir, ".#a.yaml"))
		_ = os.MkdirAll(filepath.Join(dir, "sub.yaml"), 0o755)
	}
	if c.Shape%5 != 4 && len(c.Patterns) > 0 {
		pats = append(pats, c.Patterns...)
	}
	out := filepath.Join(dir, "out", "gen.go")
	_ = os.MkdirAll(filepath.Dir(out), 0o755)
	_ = os.WriteFile(out, sentinel, 0o644)
	var abs []string
	for _, p := range pats {
		abs = append(abs, dir+"/"+p)
	}
	flags := c12Flags(c.Flags)
	bv := c12BuildVersion(c.Shape)
	done := make(chan sut.Result, 1)
	go func() { done <- sut.RunInproc(bv, "verif", sut.BuildArgs(abs, out, flags)...) }()
	var r sut.Result
	select {
	case r = <-done:
	case <-time.After(30 * time.Second):
		return "hang", "the command did not return within 30 s", "hang"
	}
	if r.Panic != "" {
		return "panic", "the command panicked: " + oneLine(r.Panic), "panic"
	}
	after, _ := os.ReadFile(out)
	rep := sut.ParseReport(r.Stdout)
	reached = "read"
	for _, s := range rep.Steps {
		if s.Depth == 0 && s.HasEnd {
			reached = s.Name
		}
	}
	if flags.Quiet && parses {
		// the step table is not printed with --quiet: classify the input by a second, verbose run to a scratch path
		nq := flags
		nq.Quiet = false
		r2 := sut.RunInproc(bv, "verif", sut.BuildArgs(abs, out+".classify", nq)...)
		for _, s := range sut.ParseReport(r2.Stdout).Steps {
			if s.Depth == 0 && s.HasEnd {
				reached = s.Name
			}
		}
		_ = os.Remove(out + ".classify")
	}
	if !parses {
		reached = "not-yaml"
	}
	if r.Exit == 0 {
		if bytes.Equal(after, sentinel) || len(after) == 0 {
			return "exit0-without-output", "the command succeeded but did not write the output", reached
		}
		if _, err := parser.ParseFile(token.NewFileSet(), "gen.go", after, parser.AllErrors); err != nil {
			return "exit0-incomplete-output", "the command succeeded but the output does not parse: " + err.Error(), reached
		}
		return "", "", reached
	}
	if !bytes.Equal(after, sentinel) {
		return "failed-run-touched-output", "the command failed but changed the output file", reached
	}
	if !flags.Quiet {
		if !rep.HasErrors || len(rep.Errors) == 0 {
			return "failure-without-error-list", "the command failed without printing an error list: " + tailLines(r.Stdout, 6), reached
		}
		if top, ok := rep.FailingTop(); ok && top.Count != len(rep.Errors) {
			return "error-count-mismatch", fmt.Sprintf("step %q reports %d errors, the list has %d items", top.Name, top.Count, len(rep.Errors)), reached
		}
	} else if r.Stdout != "" || r.Stderr != "" {
		return "quiet-prints", "--quiet printed output", reached
	}
	return "", "", reached
}

func c12Eval(t tb, c c12Case) {
	col := ev.Get()
	if c.FileName != "" {
		c12FileName(t, c)
		return
	}
	key, what, reached := c12Run(c)
	nontrivial := reached == "Compile" || reached == "Validate output" || reached == "Generate code"
	col.Case(ev.HashStr(string(c.Data), fmt.Sprint(c.Flags, c.Shape, c.Patterns)), nontrivial)
	col.Label("reached:" + reached)
	if c.Label != "" {
		col.Label(c.Label)
	}
	if strings.HasPrefix(reached, "skipped:") {
		col.Exclude(reached)
		return
	}
	col.Sample("reached:"+reached, 1, map[string]any{"data": string(c.Data), "flags": c.Flags, "shape": c.Shape, "patterns": c.Patterns})
	if key != "" {
		violation(t, key, what+" :: "+oneLine(string(c.Data)), c)
	}
}

// ---------------------------------------------------------------------------
// schema-aware confusion

func collectNodes(n *yaml.Node, out *[]*yaml.Node) {
	*out = append(*out, n)
	for _, c := range n.Content {
		collectNodes(c, out)
	}
}

func confuse(rt *rapid.T, root *yaml.Node) string {
	var nodes []*yaml.Node
	collectNodes(root, &nodes)
	if len(nodes) < 2 {
		return "nothing"
	}
	n := nodes[rapid.IntRange(1, len(nodes)-1).Draw(rt, "node")]
	if rapid.Bool().Draw(rt, "prefer-value-leaf") {
		// prefer scalar leaves in value position: such confusions survive YAML decoding more often
		var leaves []*yaml.Node
		var walk func(m *yaml.Node)
		walk = func(m *yaml.Node) {
			switch m.Kind {
			case yaml.MappingNode:
				for i := 1; i < len(m.Content); i += 2 {
					if m.Content[i].Kind == yaml.ScalarNode {
						leaves = append(leaves, m.Content[i])
					}
					walk(m.Content[i])
				}
			case yaml.SequenceNode, yaml.DocumentNode:
				for _, ch := range m.Content {
					if ch.Kind == yaml.ScalarNode {
						leaves = append(leaves, ch)
					}
					walk(ch)
				}
			}
		}
		walk(root)
		if len(leaves) > 0 {
			n = leaves[rapid.IntRange(0, len(leaves)-1).Draw(rt, "leaf")]
		}
	}
	kind := rapid.SampledFrom([]string{"scalar", "int", "bool", "null", "seq", "map", "nested-seq", "deep", "long-name", "dup-key", "anchor-alias", "tag-str", "tag-int", "tag-binary", "merge-key", "empty-key", "float", "multi-doc"}).Draw(rt, "confusion")
	set := func(x yaml.Node) { *n = x }
	switch kind {
	case "scalar":
		set(yaml.Node{Kind: yaml.ScalarNode, Tag: "!!str", Value: rapid.SampledFrom([]string{"", "x", "@", "%", "%%%", "!value ", "!tagged ", "!value", "!tagged", "!", "!value\t", "!tagged\n", "$gontainer", "$", "@a.b", "@ ", "<<", "~", "*", "!value &", "!value \"", "!value \".\".", "!tagged -"}).Draw(rt, "s")})
	case "int":
		set(yaml.Node{Kind: yaml.ScalarNode, Tag: "!!int", Value: rapid.SampledFrom([]string{"0", "-1", "9223372036854775807", "18446744073709551615", "99999999999999999999999", "0x7f", "0o17"}).Draw(rt, "i")})
	case "float":
		set(yaml.Node{Kind: yaml.ScalarNode, Tag: "!!float", Value: rapid.SampledFrom([]string{".inf", "-.inf", ".nan", "1e400", "-0.0", "1.5"}).Draw(rt, "f")})
	case "bool":
		set(yaml.Node{Kind: yaml.ScalarNode, Tag: "!!bool", Value: "true"})
	case "null":
		set(yaml.Node{Kind: yaml.ScalarNode, Tag: "!!null", Value: "~"})
	case "seq":
		set(yaml.Node{Kind: yaml.SequenceNode, Tag: "!!seq", Style: yaml.FlowStyle, Content: []*yaml.Node{{Kind: yaml.ScalarNode, Tag: "!!str", Value: "a"}, {Kind: yaml.ScalarNode, Tag: "!!int", Value: "1"}}})
	case "nested-seq":
		set(yaml.Node{Kind: yaml.SequenceNode, Tag: "!!seq", Style: yaml.FlowStyle, Content: []*yaml.Node{{Kind: yaml.SequenceNode, Tag: "!!seq", Style: yaml.FlowStyle}, {Kind: yaml.MappingNode, Tag: "!!map", Style: yaml.FlowStyle}}})
	case "map":
		set(yaml.Node{Kind: yaml.MappingNode, Tag: "!!map", Style: yaml.FlowStyle, Content: []*yaml.Node{{Kind: yaml.ScalarNode, Tag: "!!str", Value: "name"}, {Kind: yaml.ScalarNode, Tag: "!!int", Value: "5"}}})
	case "deep":
		depth := rapid.IntRange(5, 200).Draw(rt, "depth")
		cur := &yaml.Node{Kind: yaml.ScalarNode, Tag: "!!str", Value: "leaf"}
		for i := 0; i < depth; i++ {
			if i%2 == 0 {
				cur = &yaml.Node{Kind: yaml.SequenceNode, Tag: "!!seq", Style: yaml.FlowStyle, Content: []*yaml.Node{cur}}
			} else {
				cur = &yaml.Node{Kind: yaml.MappingNode, Tag: "!!map", Style: yaml.FlowStyle, Content: []*yaml.Node{{Kind: yaml.ScalarNode, Tag: "!!str", Value: "k"}, cur}}
			}
		}
		set(*cur)
	case "long-name":
		l := rapid.SampledFrom([]int{50, 61, 80, 300, 5000}).Draw(rt, "len")
		if n.Kind == yaml.ScalarNode {
			n.Value = strings.Repeat(rapid.SampledFrom([]string{"a", "é", "世", "x-"}).Draw(rt, "unit"), l)
		} else {
			set(yaml.Node{Kind: yaml.ScalarNode, Tag: "!!str", Value: strings.Repeat("n", l)})
		}
	case "dup-key":
		if n.Kind == yaml.MappingNode && len(n.Content) >= 2 {
			n.Content = append(n.Content, n.Content[0], n.Content[1])
		} else {
			set(yaml.Node{Kind: yaml.ScalarNode, Tag: "!!str", Value: "x"})
		}
	case "anchor-alias":
		n.Anchor = "anc"
		for _, m := range nodes[1:] {
			if m != n && m.Kind == yaml.ScalarNode && rapid.IntRange(0, 3).Draw(rt, "alias?") == 0 {
				*m = yaml.Node{Kind: yaml.AliasNode, Value: "anc", Alias: n}
				break
			}
		}
	case "tag-str":
		if n.Kind == yaml.ScalarNode {
			n.Tag, n.Style = "!!str", yaml.TaggedStyle
		}
	case "tag-int":
		if n.Kind == yaml.ScalarNode {
			n.Tag, n.Style, n.Value = "!!int", yaml.TaggedStyle, "12"
		}
	case "tag-binary":
		set(yaml.Node{Kind: yaml.ScalarNode, Tag: "!!binary", Style: yaml.TaggedStyle, Value: "aGVsbG8="})
	case "merge-key":
		if n.Kind == yaml.MappingNode {
			n.Content = append([]*yaml.Node{{Kind: yaml.ScalarNode, Tag: "!!merge", Value: "<<"}, {Kind: yaml.MappingNode, Tag: "!!map", Style: yaml.FlowStyle, Content: []*yaml.Node{{Kind: yaml.ScalarNode, Tag: "!!str", Value: "merged"}, {Kind: yaml.ScalarNode, Tag: "!!int", Value: "1"}}}}, n.Content...)
		}
	case "empty-key":
		if n.Kind == yaml.MappingNode {
			n.Content = append(n.Content, &yaml.Node{Kind: yaml.ScalarNode, Tag: "!!str", Value: ""}, &yaml.Node{Kind: yaml.MappingNode, Tag: "!!map", Style: yaml.FlowStyle})
		}
	case "multi-doc":
		// handled by the caller through the label
	}
	return kind
}

// specialFormBoundaries: every prefix and one-character extension of the special argument keywords, in every argument position.
func specialFormBoundaries() []string {
	var out []string
	var strs []string
	for _, kw := range []string{"!value", "!tagged", "@", "$gontainer"} {
		for i := 1; i <= len(kw); i++ {
			strs = append(strs, kw[:i])
		}
		for _, ext := range []string{" ", "\t", "x", " x", "  ", " &", " *", " \"\"", " ."} {
			strs = append(strs, kw+ext)
		}
	}
	for _, s := range strs {
		q := strconv.Quote(s)
		out = append(out,
			"services:\n  s: {constructor: fx/lib.NewObj, arguments: ["+q+"]}\n",
			"services:\n  s: {constructor: fx/lib.NewObj, fields: {A: "+q+"}, calls: [[M, ["+q+"]]]}\n",
			"services:\n  s: {constructor: fx/lib.NewObj, tags: [t]}\ndecorators:\n  - {tag: t, decorator: fx/lib.Decorate, arguments: ["+q+"]}\n",
			"parameters:\n  p: "+q+"\n")
	}
	return out
}

var c12Hostile = []string{
	// alias tables whose targets start with other aliases: chains, self references, cycles
	"meta:\n  imports: {foo: \"bar/x\", bar: \"foo/y\"}\nservices:\n  s: {constructor: foo.New}\n",
	"meta:\n  imports: {foo: \"bar\", bar: \"foo\"}\nservices:\n  s: {value: \"bar.V\", type: \"*foo/z.T\"}\n",
	"meta:\n  imports: {a: \"b/1\", b: \"c/2\", c: \"a/3\"}\n  functions: {f: \"a.F\"}\nparameters: {p: \"%f()%\"}\n",
	"meta:\n  imports: {a: \"a/b\", n: \"n\"}\nservices:\n  s: {constructor: a.New, arguments: [\"!value n.V\"]}\n",
	"meta:\n  imports: {x: \"y/x\", y: \"z/y\", z: \"w\"}\nservices:\n  s: {constructor: x/sub.New}\ndecorators:\n  - {tag: t, decorator: y.D}\n",
	"services:\n  a: {constructor: X, scope: shared, arguments: [\"@gone\"]}\n",
	"services:\n  a: {constructor: X, scope: shared, arguments: [\"!tagged t\"]}\n  b: {constructor: X, tags: [t], fields: {F: \"@gone\"}}\n",
	"services:\n  a: {constructor: X, scope: shared, tags: [t]}\ndecorators:\n  - {tag: t, decorator: D, arguments: [\"@gone\", \"%gone%\"]}\n",
	"services:\n  a: {constructor: X, scope: contextual, arguments: [\"@gone\"]}\n  b: {constructor: X, scope: shared, calls: [[M, [\"@a\", \"@gone2\"]]]}\n",
	"services:\n  a: {constructor: X, scope: non_shared, arguments: [\"@a\", \"%p%\"]}\nparameters: {p: \"%q%\", q: \"%p%%gone%\"}\n",
	// import paths that consist of a major-version element only; references through YAML anchors and aliases
	"services:\n  s: {value: \"v1.Pod{}\"}\n", "services:\n  s: {constructor: v2.New, type: \"*v3.T\", getter: GetS}\n", "meta:\n  functions: {f: \"v2.Version\"}\nparameters: {p: \"%f()%\"}\n",
	"services:\n  s: {constructor: X, arguments: [\"!value v1.X\", \"!value &v10/v2.Y{}\"]}\ndecorators:\n  - {tag: t, decorator: v0.D}\n",
	"parameters: {n: &t plugin, m: &p 5}\nservices:\n  a: {constructor: X, tags: [{name: *t, priority: *p}], arguments: [\"!tagged plugin\"]}\n  b: {constructor: X, tags: [*t]}\n",
	"x: &s {constructor: X, tags: [t]}\nservices:\n  a: *s\n  b: *s\n  c: {<<: *s, getter: GetC}\n",
	// strings that are no valid UTF-8 (only !!binary can carry them) around token boundaries
	"parameters:\n  p: !!binary /yUl\n", "parameters:\n  p: !!binary /yVhJQ==\n", "parameters:\n  p: !!binary //8lYSUl\n", "parameters:\n  a: 1\n  p: !!binary /yVhJXh4\n",
	"parameters:\n  p: !!binary wyglYSU=\n", "parameters:\n  p: !!binary 7aCAJSU=\n", "parameters:\n  p: !!binary JWVudigi/yIpJQ==\n",
	"services:\n  s: {constructor: X, arguments: [!!binary /yVhJQ==, !!binary /yUl], fields: {F: !!binary //8lJXg=}}\n", "services:\n  s: {constructor: !!binary /1g=, getter: !!binary /0c=, tags: [!!binary /3Q=]}\n",
	"decorators:\n  - {tag: t, decorator: D, arguments: [!!binary /yVhJXh4]}\n", "meta:\n  imports: {a: !!binary /2E=}\n  functions: {f: !!binary /2Y=}\n", "version: !!binary /zEuMi4z\n",
	"", "%", "%%%", "@", "!value ", "!tagged ", "<<: {a: 1}\n", "a: &x [*x]\n", "services: {\"\": {}}\n", "parameters: {\"\": \"\"}\n",
	"services:\n  s:\n    calls: [[]]\n", "services:\n  s:\n    calls: [[1, 2, 3, 4]]\n", "services:\n  s:\n    tags: [{priority: 1e99}]\n",
	"services:\n  s:\n    tags: [{name: t, priority: 99999999999999999999}]\n", "version: 1\n", "version: [1]\n", "version: \"999999999999999999999.0.0\"\n",
	"meta:\n  functions: {env: \"\"}\n", "meta:\n  functions: {todo: \"x.\"}\n", "meta:\n  imports: {\"\": \"\"}\n",
	"services:\n  " + strings.Repeat("n", 70) + ": {todo: true}\n", "parameters:\n  " + strings.Repeat("p", 300) + ": 1\n",
	"decorators:\n  - {}\n", "decorators:\n  - ~\n", "decorators: [[]]\n", "services:\n  s: {value: \"&\\\"\\\".X\"}\n", "services:\n  s: {type: \"*\"}\n",
	"parameters:\n  a: \"%a%\"\n", "parameters:\n  a: 1e999\n", "parameters:\n  a: 0x1p-2\n", "parameters:\n  a: !!binary aGk=\n", "parameters:\n  a: !!timestamp 2001-01-01\n",
	"services:\n  s: {constructor: X, arguments: [\"\\u0000\", \"\\ud800\"]}\n", "\xff\xfe", "\x00", "---\n---\n", "- a\n- b\n", "just a string\n", "42\n", "~\n",
	"services:\n  s: {constructor: X, fields: {\"\": 1}}\n", "services:\n  s: {constructor: X, scope: \"\"}\n", "services:\n  s: {constructor: X, getter: \"\"}\n",
}

// repoYAML returns every YAML file of the repository (own configuration and test data).
func repoYAML() [][]byte {
	var out [][]byte
	_ = filepath.Walk(ev.RepoDir(), func(p string, info os.FileInfo, err error) error {
		if err != nil || info.IsDir() {
			if info != nil && info.IsDir() && info.Name() == ".git" {
				return filepath.SkipDir
			}
			return nil
		}
		if strings.HasSuffix(p, ".yaml") || strings.HasSuffix(p, ".yml") {
			if b, err := os.ReadFile(p); err == nil && len(b) < 64<<10 {
				out = append(out, b)
			}
		}
		return nil
	})
	return out
}

func corpusFiles() [][]byte {
	var out [][]byte
	m, _ := filepath.Glob(filepath.Join(ev.VerifDir(), "corpus", "C12", "*"))
	sort.Strings(m)
	for _, f := range m {
		if b, err := os.ReadFile(f); err == nil {
			out = append(out, b)
		}
	}
	return out
}

func FuzzC12(f *testing.F) {
	for _, b := range repoYAML() {
		f.Add(b, uint8(0), uint8(0))
	}
	for _, b := range corpusFiles() {
		f.Add(b, uint8(0), uint8(0))
		f.Add(b, uint8(6), uint8(1))
	}
	for i, s := range c12Hostile {
		f.Add([]byte(s), uint8(i), uint8(i))
	}
	for _, s := range specialFormBoundaries() {
		f.Add([]byte(s), uint8(0), uint8(0))
	}
	for _, ft := range features() {
		c := baseConfig()
		ft.apply(&c, 0)
		if text, err := cfg.Emit(c, cfg.Style{}); err == nil {
			f.Add([]byte(text), uint8(0), uint8(0))
		}
	}
	f.Fuzz(func(t *testing.T, data []byte, flags uint8, shape uint8) {
		key, what, _ := c12Run(c12Case{Data: data, Flags: flags, Shape: shape})
		if key != "" {
			t.Fatalf("%s: %s", key, what)
		}
	})
}

func TestC12(t *testing.T) {
	col := ev.Get()
	// the linked binary is built before c12Env points the Go tooling at an empty module cache
	if _, err := toolBinary(); err != nil {
		t.Fatalf("INFRA: %v", err)
	}
	var rc c12Case
	if replayPayload(t, &rc) {
		c12Eval(t, rc)
		return
	}
	for _, f := range regressFiles("C12") {
		var c c12Case
		loadRegress(t, f, &c)
		c12Eval(t, c)
		col.Label("regress")
	}
	// corpus replay: repository YAML, committed corpus, hostile constants, under every flag subset shape
	idx := 0
	var seeds [][]byte
	seeds = append(seeds, repoYAML()...)
	seeds = append(seeds, corpusFiles()...)
	for _, s := range c12Hostile {
		seeds = append(seeds, []byte(s))
	}
	for _, s := range specialFormBoundaries() {
		seeds = append(seeds, []byte(s))
	}
	// declared versions of every shape x every build version (shape/5 selects the build version)
	for vi, vl := range c12VersionLines {
		for b := range c12BuildVersions {
			idx++
			if !ev.Mine(idx) {
				continue
			}
			c12Eval(t, c12Case{Data: []byte("version: " + vl + "\nparameters: {a: 1}\n"), Flags: uint8(vi+b) % 16, Shape: uint8(5 * b), Label: "version-forms"})
		}
	}
	for i, s := range seeds {
		for shape := uint8(0); shape < 4; shape++ {
			idx++
			if !ev.Mine(idx) {
				continue
			}
			c12Eval(t, c12Case{Data: s, Flags: uint8(i+int(shape)) % 16, Shape: shape, Label: "corpus"})
		}
	}

	// (b) schema-aware confusion of valid configurations
	setRapidChecks(pick(600, 4000))
	opts := gen.All()
	opts.PkgMain = true
	rapid.Check(t, func(rt *rapid.T) {
		if deadlinePassed() {
			rt.Skip("budget used up")
		}
		conf, _ := gen.Valid(rt, opts)
		doc := cfg.DocNode(conf, drawStyle(rt))
		n := rapid.IntRange(1, 3).Draw(rt, "confusions")
		var kinds []string
		for i := 0; i < n; i++ {
			kinds = append(kinds, confuse(rt, doc))
		}
		text, err := cfg.EncodeNode(doc)
		if err != nil {
			col.Exclude("unencodable-node-tree")
			return
		}
		for _, k := range kinds {
			if k == "multi-doc" {
				text = text + "---\nparameters: {second: doc}\n"
			}
		}
		for _, k := range kinds {
			col.Label("confusion:" + k)
		}
		c12Eval(rt, c12Case{Data: []byte(text), Flags: uint8(rapid.IntRange(0, 15).Draw(rt, "flags")), Shape: uint8(rapid.IntRange(0, 3).Draw(rt, "shape") + 5*rapid.IntRange(0, len(c12BuildVersions)-1).Draw(rt, "build")), Label: "node-confusion"})
	})

	// (b2) well-formed documents with semantic defects (dangling references, cycles, scope conflicts, grammar defects) on
	// scope-heavy configurations: the validation rules themselves must be total on each other's rejects
	setRapidChecks(pick(400, 3000))
	sopts := gen.All()
	sopts.PkgMain = true
	sopts.ScopeHeavy = true
	rapid.Check(t, func(rt *rapid.T) {
		if deadlinePassed() {
			rt.Skip("budget used up")
		}
		conf, _ := gen.Valid(rt, sopts)
		k := rapid.IntRange(1, 3).Draw(rt, "defects")
		for i := 0; i < k; i++ {
			lbl := fmt.Sprintf("d%d", i)
			switch rapid.IntRange(0, 5).Draw(rt, lbl) {
			case 0:
				col.Label("defect:" + gen.InjectDanglingParam(rt, &conf, lbl))
			case 1, 2:
				col.Label("defect:" + gen.InjectDanglingService(rt, &conf, lbl))
			case 3:
				col.Label("defect:" + gen.InjectCycle(rt, &conf, lbl))
			case 4:
				col.Label("defect:" + gen.InjectScopeConflict(rt, &conf, lbl))
			case 5:
				col.Label("defect:" + gen.InjectGrammarDefect(rt, &conf, lbl))
			}
		}
		text, err := cfg.Emit(conf, drawStyle(rt))
		if err != nil {
			col.Exclude("serialiser-self-check")
			return
		}
		c12Eval(rt, c12Case{Data: []byte(text), Flags: uint8(rapid.IntRange(0, 15).Draw(rt, "flags")), Shape: uint8(rapid.IntRange(0, 3).Draw(rt, "shape") + 5*rapid.IntRange(0, len(c12BuildVersions)-1).Draw(rt, "build")), Label: "semantic-defects"})
	})

	// (c) arbitrary glob patterns and flag subsets on a valid file
	setRapidChecks(pick(120, 600))
	patGen := rapid.OneOf(
		rapid.SampledFrom([]string{"[", "]", "*", "?", "**", "[a-", "\\", "a.yaml/", "/", "", ".", "..", "*.yaml", "a?yaml", "[!a].yaml", "{a,b}.yaml", "out", "out/*", "dangling.yaml", "loop.yaml", "d*.yaml", "*", ".*", "l*", "sub.yaml", "sub.yaml/*", "\x00", strings.Repeat("a", 300), "~", "$HOME", "a.yaml ", " a.yaml"}),
		rapid.StringMatching(`[a-z*?\[\]\\./-]{0,12}`),
	)
	rapid.Check(t, func(rt *rapid.T) {
		var ps []string
		// mostly one to three patterns; now and then as many as the listing of the step table numbers with one more digit
		npat := rapid.IntRange(1, 3).Draw(rt, "npat")
		if rapid.IntRange(0, 7).Draw(rt, "many-patterns") == 0 {
			npat = rapid.SampledFrom([]int{9, 10, 11, 12, 99, 100, 101, 128}).Draw(rt, "npat-many")
		}
		for i := npat; i > 0; i-- {
			ps = append(ps, patGen.Draw(rt, "pattern"))
		}
		c12Eval(rt, c12Case{Data: []byte("parameters: {a: 1}\nservices:\n  s: {constructor: fx/lib.NewObj}\n"), Flags: uint8(rapid.IntRange(0, 15).Draw(rt, "flags")), Shape: 4, Patterns: ps, Label: "glob-patterns"})
	})

	// (e) hostile input file *names*, through the linked binary with relative patterns (the step table prints them)
	{
		valid := "parameters: {a: 1}\nservices:\n  s: {constructor: fx/lib.NewObj}\n"
		names := []string{
			"конфигурация-сервисов-приложения.yaml", "cfg/конфигурация-сервисов-приложения.yaml", "依存性注入コンテナの設定ファイル設定ファイル.yaml", "ρυθμίσεις-υπηρεσιών-εφαρμογής.yaml",
			"é.yaml", strings.Repeat("é", 23) + ".yaml", strings.Repeat("é", 24) + ".yaml", strings.Repeat("é", 40) + ".yaml", strings.Repeat("é", 120) + ".yaml", strings.Repeat("😀", 12) + ".yaml",
			strings.Repeat("a", 47) + ".yaml", strings.Repeat("a", 55) + ".yaml", strings.Repeat("a", 200) + ".yaml", strings.Repeat("d/", 30) + "a.yaml",
			"with space.yaml", "a,b.yaml", `a"b.yaml`, "a'b.yaml", "a%b.yaml", "a%%b%.yaml", "-x.yaml", "--quiet.yaml", "a\nb.yaml", "a\tb.yaml", "a\\b.yaml", "a[1].yaml", "a{1}.yaml", "a*.yaml", "~a.yaml", "$HOME.yaml", ".hidden.yaml", "a.yaml.", "\u202ea.yaml",
		}
		for i, name := range names {
			for fb := 0; fb < 4; fb++ {
				idx++
				if !ev.Mine(idx) {
					continue
				}
				content := valid
				if fb&2 != 0 {
					content = "services: [1\n" // the same names on the failure path
				}
				if !c12FileName(t, c12Case{Data: []byte(content), Flags: uint8(fb&1) | uint8(i%4)<<4, FileName: name, Label: "file-name"}) {
					return
				}
			}
		}
		col.Exhaustive(fmt.Sprintf("%d hostile input file names (multi-byte names around the column width of the step table, very long, separators, quotes, percent signs, option-like, glob metacharacters, control characters) x {valid, unparsable} x {verbose, quiet} through the linked binary", len(names)))
	}

	// (a) coverage-guided byte mutation (thorough tier, one shard drives all workers)
	if ev.Thorough() && ev.ShardIndex() == 0 {
		c12NativeFuzz(t)
	}
	if !deadlinePassed() {
		col.Complete()
	}
}

// c12NativeFuzz runs Go's native fuzzer on FuzzC12 for a fixed wall budget by
// re-executing this test binary; crashers become replay files.
func c12NativeFuzz(t *testing.T) {
	col := ev.Get()
	work := scratch("fuzz")
	budget := 300 * time.Second
	if v := os.Getenv("VERIF_FUZZTIME"); v != "" {
		if d, err := time.ParseDuration(v); err == nil {
			budget = d
		}
	}
	pkgDir := filepath.Join(ev.VerifDir(), "harness", "checks")
	crashDir := filepath.Join(pkgDir, "testdata", "fuzz", "FuzzC12")
	_ = os.RemoveAll(filepath.Join(pkgDir, "testdata"))
	defer os.RemoveAll(filepath.Join(pkgDir, "testdata"))
	args := []string{"test", "-tags", "verif"}
	if mf := os.Getenv("VERIF_MODFILE"); mf != "" {
		args = append(args, "-modfile", mf)
	}
	args = append(args, "-run", "^$", "-fuzz", "^FuzzC12$", "-fuzztime", budget.String(), "-parallel", "12",
		"-timeout", (budget + 10*time.Minute).String(), "-test.fuzzcachedir", filepath.Join(work, "cache"), ".")
	cmd := exec.Command("go", args...)
	cmd.Dir = pkgDir
	env := []string{}
	for _, kv := range os.Environ() {
		// the fuzz workers set their own restricted GOPATH (c12Env); the build needs the real one
		if strings.HasPrefix(kv, "GOPATH=") || strings.HasPrefix(kv, "GOMODCACHE=") {
			continue
		}
		env = append(env, kv)
	}
	cmd.Env = append(env, "VERIF_OUT="+filepath.Join(work, "out"), "VERIF_SCRATCH="+filepath.Join(work, "tmp"), "GOFLAGS=-mod=mod")
	_ = os.MkdirAll(filepath.Join(work, "tmp"), 0o755)
	_ = os.MkdirAll(filepath.Join(work, "out"), 0o755)
	var buf bytes.Buffer
	cmd.Stdout, cmd.Stderr = &buf, &buf
	runErr := cmd.Run()
	text := buf.String()
	// "fuzz: elapsed: 5m0s, execs: 123456 (411/sec), new interesting: 321 (total: 400)"
	execs := 0
	for _, ln := range strings.Split(text, "\n") {
		if i := strings.Index(ln, "execs: "); i >= 0 {
			fmt.Sscanf(ln[i+len("execs: "):], "%d", &execs)
		}
	}
	col.LabelN("native-fuzz-executions", execs)
	col.Eval(execs)
	col.Note(fmt.Sprintf("native go fuzzing of FuzzC12 ran for %s with 12 workers: %d executions (cannot be pinned to a seed; a crasher is the reproducible unit)", budget, execs))
	crashers, _ := filepath.Glob(filepath.Join(crashDir, "*"))
	if len(crashers) > 0 {
		b, _ := os.ReadFile(crashers[0])
		c := parseFuzzCorpusFile(b)
		key, what, _ := c12Run(c)
		if key == "" {
			key, what = "fuzz-crasher", "the native fuzzer reported a failing input that does not reproduce in-process: "+tailLines(text, 12)
		}
		violation(t, key, "found by native fuzzing: "+what, c)
		return
	}
	if runErr != nil {
		t.Fatalf("INFRA: native fuzzing failed to run: %v\n%s", runErr, tailLines(text, 20))
	}
}

// parseFuzzCorpusFile decodes a "go test fuzz v1" file with ([]byte, byte, byte) arguments.
func parseFuzzCorpusFile(b []byte) c12Case {
	var c c12Case
	lines := strings.Split(string(b), "\n")
	vals := 0
	for _, ln := range lines[1:] {
		ln = strings.TrimSpace(ln)
		switch {
		case strings.HasPrefix(ln, "[]byte("):
			s := strings.TrimSuffix(strings.TrimPrefix(ln, "[]byte("), ")")
			if u, err := strconvUnquote(s); err == nil {
				c.Data = []byte(u)
			}
		case strings.HasPrefix(ln, "byte(") || strings.HasPrefix(ln, "uint8("):
			s := ln[strings.Index(ln, "(")+1 : len(ln)-1]
			var v uint8
			if strings.HasPrefix(s, "'") {
				if u, err := strconvUnquote(strings.ReplaceAll(s, "'", "\"")); err == nil && len(u) > 0 {
					v = u[0]
				}
			} else {
				var n int
				fmt.Sscanf(s, "%v", &n)
				v = uint8(n)
			}
			if vals == 0 {
				c.Flags = v
			} else {
				c.Shape = v
			}
			vals++
		}
	}
	return c
}

func strconvUnquote(s string) (string, error) { return strconv.Unquote(s) }
