//go:build verif

package checks

import (
	"fmt"
	"go/parser"
	"go/token"
	"strconv"
	"strings"
	"testing"

	"pgregory.net/rapid"

	"verifh/cfg"
	"verifh/ev"
	"verifh/fx"
	"verifh/ref"
)

// denotedPackages lists every package a reference of the configuration denotes under the alias rule.
func denotedPackages(c cfg.Config) map[string]bool {
	aliases := map[string]string{}
	for _, kv := range c.Meta.Imports {
		aliases[kv.K] = kv.V
	}
	r := map[string]bool{}
	add := func(imp string) {
		if p := ref.ResolveImport(imp, aliases); p != "" {
			r[p] = true
		}
	}
	arg := func(v cfg.Val) {
		if !v.IsStr() {
			return
		}
		if k, payload, ok := ref.ClassifyArg(v.S); ok && k == ref.ArgValue {
			if sr, ok := ref.ValueRef(payload); ok {
				add(sr.Import)
			}
		}
	}
	for _, kv := range c.Meta.Functions {
		if sr, ok := ref.FuncRef(kv.V); ok {
			add(sr.Import)
		}
	}
	for _, s := range c.Services {
		if s.IsTodo() {
			continue
		}
		if s.Ctor != nil {
			if sr, ok := ref.FuncRef(*s.Ctor); ok {
				add(sr.Import)
			}
		}
		if s.Value != nil {
			if sr, ok := ref.ValueRef(*s.Value); ok {
				add(sr.Import)
			}
		}
		if s.Type != nil {
			if sr, ok := ref.TypeRef(*s.Type); ok {
				add(sr.Import)
			}
		}
		for _, v := range s.AllArgs() {
			arg(v)
		}
	}
	for _, d := range c.Decorators {
		if sr, ok := ref.FuncRef(d.Fn); ok {
			add(sr.Import)
		}
		for _, v := range d.Args {
			arg(v)
		}
	}
	return r
}

// observedPackages collects the package IDs of every object in the probe results.
func observedPackages(v *fx.V, into map[string]bool) {
	if v == nil {
		return
	}
	if v.O != nil {
		if strings.HasPrefix(v.O.Pkg, "fx/") {
			into[v.O.Pkg] = true
		}
		for i := range v.O.Args {
			observedPackages(&v.O.Args[i], into)
		}
		for _, f := range v.O.Fields {
			f := f
			observedPackages(&f, into)
		}
		for _, l := range v.O.Log {
			for i := range l.Args {
				observedPackages(&l.Args[i], into)
			}
		}
		observedPackages(v.O.Parent, into)
	}
	for i := range v.L {
		observedPackages(&v.L[i], into)
	}
}

func c14NonTrivial(m behMember, merged cfg.Config) bool {
	tpl := []string{"fmt", "os", "errors", "context", "reflect", "strconv", "github.com"}
	var paths []string
	for p := range denotedPackages(merged) {
		paths = append(paths, p)
	}
	for _, a := range merged.Meta.Imports {
		for _, b := range merged.Meta.Imports {
			if a.K != b.K && strings.HasPrefix(b.K, a.K) {
				return true
			}
		}
		for _, p := range paths {
			first := strings.SplitN(p, "/", 2)[0]
			if first != a.K && strings.HasPrefix(first, a.K) {
				return true
			}
		}
		for _, p := range tpl {
			if p != a.K && strings.HasPrefix(p, a.K) {
				return true
			}
		}
	}
	return false
}

func c14Check(t tb, bc behContext) {
	col := ev.Get()
	if !checkAgainstModel(t, bc, "") {
		return
	}
	d := ref.NewDI(bc.Merged, bc.M.Script.Env)
	for i, op := range bc.M.Script.Ops {
		if op.Op == "methods" && i < len(bc.Cont.Out.Res) {
			if !checkMethodSet(t, bc, d, bc.Cont.Out.Res[i]) {
				return
			}
		}
	}
	// import block
	fset := token.NewFileSet()
	f, err := parser.ParseFile(fset, "gen.go", bc.Cont.Source, parser.ImportsOnly)
	if err != nil {
		violation(t, "import-block-parse", err.Error(), bc.One)
		return
	}
	seenPath := map[string]bool{}
	seenName := map[string]bool{}
	denoted := denotedPackages(bc.Merged)
	for _, im := range f.Imports {
		p, _ := strconv.Unquote(im.Path.Value)
		if seenPath[p] {
			violation(t, "import-twice", "package "+p+" is imported twice", bc.One)
			return
		}
		seenPath[p] = true
		if im.Name != nil {
			if seenName[im.Name.Name] {
				violation(t, "import-name-clash", "two imports share the local name "+im.Name.Name, bc.One)
				return
			}
			seenName[im.Name.Name] = true
		}
		if strings.HasPrefix(p, "fx/") && !denoted[p] {
			violation(t, "import-not-denoted", fmt.Sprintf("the output imports %s, which no reference of the configuration denotes (denoted: %v)", p, fx.SortedKeys(denoted)), bc.One)
			return
		}
	}
	obs := map[string]bool{}
	for i := range bc.Cont.Out.Res {
		r := &bc.Cont.Out.Res[i]
		observedPackages(r.V, obs)
		for j := range r.L {
			observedPackages(&r.L[j], obs)
		}
	}
	for p := range obs {
		if !seenPath[p] {
			violation(t, "object-from-unimported-package", "an object of package "+p+" was observed but the package is not in the import block", bc.One)
			return
		}
	}
	col.Label("import-block-checked")
	col.Label(fmt.Sprintf("user-packages-imported:%d", min(len(obs), 5)))
}

func TestC14(t *testing.T) {
	col := ev.Get()
	behCompileErrIsViolation = true
	var rc behCase
	if replayPayload(t, &rc) {
		behBatch(t, rc, c14NonTrivial, c14Check, nil)
		return
	}
	for _, f := range regressFiles("C14") {
		var c behCase
		loadRegress(t, f, &c)
		behBatch(t, c, c14NonTrivial, c14Check, nil)
		col.Label("regress")
	}
	// hand-built: the configuration itself refers to the packages the generated code imports for its own needs
	// (functions from strconv / fmt / os / errors / reflect, in every spelling): every package once, under one name
	if ev.Mine(0) {
		var c behCase
		for v := 0; v < 3; v++ {
			conf := cfg.Config{Meta: cfg.Meta{Pkg: sp("app"),
				Functions: []cfg.KV{{K: "itoa", V: "strconv.Itoa"}, {K: "sprint", V: "fmt.Sprint"}, {K: "getenv", V: "os.Getenv"}, {K: "unwrap", V: "errors.Unwrap"}, {K: "typeof", V: "reflect.TypeOf"}, {K: "echo", V: "fx/lib.Echo"}}},
				Params: []cfg.Param{{Name: "n", Val: cfg.Str(`%itoa(5)%`)}, {Name: "s", Val: cfg.Str(`%sprint("x", 1)%-%sprint(2)%`)}, {Name: "e", Val: cfg.Str(`%getenv("VERIF_UNSET")%`)},
					{Name: "u", Val: cfg.Str(`%unwrap(nil)%`)}, {Name: "t", Val: cfg.Str(`%typeof(1)%`)}, {Name: "k", Val: cfg.Str(`%echo("k")%`)}},
				Services: []cfg.Service{{Name: "a", Ctor: sp("fx/lib.NewObj"), Getter: sp("GetA"), Type: sp("*fx/lib.Obj"), Args: []cfg.Val{cfg.Str("%k%")}}}}
			switch v {
			case 1: // quoted paths
				for i := range conf.Meta.Functions[:5] {
					pkg, fn, _ := strings.Cut(conf.Meta.Functions[i].V, ".")
					conf.Meta.Functions[i].V = `"` + pkg + `".` + fn
				}
			case 2: // through aliases, one of them named like another template import
				conf.Meta.Imports = []cfg.KV{{K: "conv", V: "strconv"}, {K: "context", V: "fmt"}, {K: "sys", V: "os"}}
				conf.Meta.Functions[0].V, conf.Meta.Functions[1].V, conf.Meta.Functions[2].V = "conv.Itoa", "context.Sprint", "sys.Getenv"
			}
			sc := fx.Script{Ops: []fx.Op{{Op: "methods"}, {Op: "get", ID: "a"}, {Op: "param", ID: "k"}}}
			c.Members = append(c.Members, behMember{Files: []cfg.Config{conf}, Script: sc, Labels: []string{"hand-built:functions-from-the-template's-own-imports", fmt.Sprintf("spelling:%d", v)}})
		}
		behBatch(t, c, c14NonTrivial, c14Check, nil)
	}
	batch := pick(20, 32)
	setRapidChecks(pick(5, 50))
	opts := behaviouralOpts()
	opts.AliasHeavy = true
	opts.TemplateAlias = true // aliases named like the packages the generated code imports itself
	opts.Todo = false
	opts.FailCtor = false
	opts.Scopes = false
	rapid.Check(t, func(rt *rapid.T) {
		if deadlinePassed() {
			rt.Skip("budget used up")
		}
		var c behCase
		k := rapid.IntRange(batch/2, batch).Draw(rt, "batch")
		for i := 0; i < k; i++ {
			m, conf := drawMember(rt, opts, 2)
			sc := scriptAll(conf)
			sc.Ops = append([]fx.Op{{Op: "methods"}}, sc.Ops...)
			m.Script = sc
			c.Members = append(c.Members, m)
		}
		behBatch(rt, c, c14NonTrivial, c14Check, nil)
	})
	if !deadlinePassed() {
		col.Complete()
	}
}
