//go:build verif

package checks

import (
	"fmt"
	"os"
	"testing"

	"pgregory.net/rapid"

	"verifh/cfg"
	"verifh/ev"
	"verifh/gen"
	"verifh/ref"
	"verifh/sut"
)

type graphCase struct {
	G     gen.GraphSpec `json:"graph"`
	Style cfg.Style     `json:"style"`
	Flags sut.Flags     `json:"flags"`
	Tag   string        `json:"tag,omitempty"`
}

// sccGuard reports whether the reference graph of c has a strongly connected
// component larger than limit (cycle enumeration is exponential there; the property
// itself is restricted to a moderate number of cycles).
func sccGuard(c cfg.Config, limit int) bool {
	a := ref.Analyse(c)
	if a.Graph == nil {
		return false
	}
	g := a.Graph
	for _, comp := range g.SCCs() {
		if len(comp) <= limit {
			continue
		}
		in := map[int]bool{}
		for _, v := range comp {
			in[v] = true
		}
		edges := 0
		for _, v := range comp {
			for _, w := range g.Adj[v] {
				if in[w] {
					edges++
				}
			}
		}
		if edges > 3*limit+3 { // a sparse component has few elementary cycles whatever its size
			return true
		}
	}
	return false
}

func c07Probe(t tb, p pendingRun) {
	col := ev.Get()
	col.Label("accepted-and-probed")
	out := p.cont.Out
	if out.Hang {
		violation(t, "runtime-hang", "accepted configuration: the probe did not terminate (parameter evaluation or service construction loops)", p.c)
		return
	}
	for _, r := range out.Res {
		if r.Op == "circular" && r.Err != "" {
			violation(t, "runtime-circular-deps", "accepted configuration but CircularDeps() reports: "+oneLine(r.Err), p.c)
		}
		if r.Err != "" && (r.Op == "param" || r.Op == "get") {
			violation(t, "runtime-error", fmt.Sprintf("accepted acyclic configuration fails at run time: %s(%s): %s", r.Op, r.ID, oneLine(r.Err)), p.c)
		}
		if r.Panic != "" {
			violation(t, "runtime-panic", fmt.Sprintf("%s(%s) panicked: %s", r.Op, r.ID, r.Panic), p.c)
		}
	}
}

// c07RawCase is a document written by hand together with the configuration it means.
type c07RawCase struct {
	C      cfg.Config `json:"config"`
	Raw    string     `json:"raw"`
	Labels []string   `json:"labels,omitempty"`
}

func TestC07(t *testing.T) {
	col := ev.Get()
	q := &runQueue{check: c07Probe}
	evalCfg := func(t tb, cc cfgCase, caseHash uint64, tagEdges bool, sample any) {
		c := cc.C
		if sccGuard(c, 7) {
			col.Exclude("scc-larger-than-7")
			return
		}
		a, o := verdictEval(t, cc)
		if o == nil {
			return
		}
		defer o.cleanup()
		col.Case(caseHash, a.Cyclic || tagEdges)
		for _, l := range cc.Labels {
			col.Label(l)
		}
		if a.Cyclic {
			col.Label("cyclic")
			on, largest := a.Graph.OnCycle()
			col.Label(fmt.Sprintf("largest-scc:%d", largest))
			col.Sample("cyclic", 3, map[string]any{"graph": sample, "on_cycle": len(on), "reported": o.Report.Errors})
		} else {
			col.Label("acyclic")
			if tagEdges {
				col.Label("acyclic-with-tag-or-decorator-edges")
			}
			col.Sample("acyclic", 2, map[string]any{"graph": sample})
		}
		hasTodo := false
		for _, sv := range c.Services {
			hasTodo = hasTodo || sv.IsTodo()
		}
		if o.Res.Exit == 0 && o.Exists && !hasTodo { // a placeholder fails at run time by design: nothing to probe
			q.add(cc, o.Out, scriptAll(c))
		}
	}
	eval := func(t tb, gc graphCase) {
		tagEdges := len(gc.G.SvcTags)+len(gc.G.SvcTagged)+len(gc.G.DecTag) > 0
		evalCfg(t, cfgCase{C: gc.G.Config(), Style: gc.Style, Flags: gc.Flags, Labels: []string{gc.Tag}}, ev.Hash(gc), tagEdges, gc.G)
	}
	evalRaw := func(t tb, rc c07RawCase) bool {
		a := ref.Analyse(rc.C)
		o := runInproc(Spec{Files: []File{{Name: "anchors.yaml", Content: rc.Raw}}})
		defer o.cleanup()
		col.Case(ev.HashStr("anchors", rc.Raw), true)
		col.Label("anchors-and-aliases")
		if key, what := compareVerdict(a, sut.Flags{}, o); key != "" {
			violation(t, "anchors:"+key, what+" :: "+oneLine(rc.Raw), rc)
			return false
		}
		return true
	}
	// violations are stored as the configuration that failed (cfgCase); older hand-written cases are graph specs
	stored := func(path string) {
		if payloadHas(t, path, "raw") { // a document written by hand (anchors and aliases) with the configuration it means
			var rc c07RawCase
			loadRegress(t, path, &rc)
			evalRaw(t, rc)
			return
		}
		var cc cfgCase
		loadRegress(t, path, &cc)
		if len(cc.C.Services)+len(cc.C.Params)+len(cc.C.Decorators) > 0 {
			tagEdges := len(cc.C.Decorators) > 0
			for _, sv := range cc.C.Services {
				tagEdges = tagEdges || len(sv.Tags) > 0
			}
			evalCfg(t, cc, ev.Hash(cc), tagEdges, cc.C)
			return
		}
		var gc graphCase
		loadRegress(t, path, &gc)
		eval(t, gc)
	}
	if p := os.Getenv("VERIF_REPLAY"); p != "" {
		stored(p)
		q.flush(t, 1)
		col.Complete()
		return
	}
	for _, f := range regressFiles("C07") {
		stored(f)
		col.Label("regress")
	}
	q.flush(t, 1)

	// (a0) the same structures written with YAML anchors and aliases (tag names, whole tags, arguments, whole services):
	// the document means what its expansion means
	if ev.Mine(0) {
		model := cfg.Config{Services: []cfg.Service{
			{Name: "a", Ctor: sp("fx/lib.NewObj"), Args: []cfg.Val{cfg.Str("!tagged plugin")}},
			{Name: "b", Ctor: sp("fx/lib.NewObj"), Args: []cfg.Val{cfg.Str("@a")}, Tags: []cfg.Tag{{Name: "plugin", Prio: 5}}},
			{Name: "c", Ctor: sp("fx/lib.NewObj"), Tags: []cfg.Tag{{Name: "deco"}}},
			{Name: "d", Ctor: sp("fx/lib.NewObj"), Args: []cfg.Val{cfg.Str("@d")}}},
			Decorators: []cfg.Decorator{{Tag: "deco", Fn: "fx/lib.Decorate", Args: []cfg.Val{cfg.Str("@c")}}}}
		raws := []string{
			"parameters: {tagName: &t plugin, prio: &p 5, decoTag: &d deco}\nservices:\n  a: {constructor: fx/lib.NewObj, arguments: [\"!tagged plugin\"]}\n  b: {constructor: fx/lib.NewObj, arguments: [\"@a\"], tags: [{name: *t, priority: *p}]}\n  c: {constructor: fx/lib.NewObj, tags: [*d]}\n  d: {constructor: fx/lib.NewObj, arguments: [\"@d\"]}\ndecorators:\n  - {tag: *d, decorator: fx/lib.Decorate, arguments: [\"@c\"]}\n",
			"parameters: {argA: &ra \"@a\", argC: &rc \"@c\", tg: &tg \"!tagged plugin\"}\nservices:\n  a: {constructor: fx/lib.NewObj, arguments: [*tg]}\n  b: {constructor: fx/lib.NewObj, arguments: [*ra], tags: [&tagobj {name: plugin, priority: 5}]}\n  c: {constructor: fx/lib.NewObj, tags: [deco]}\n  d: {constructor: &ctor fx/lib.NewObj, arguments: [\"@d\"]}\ndecorators:\n  - {tag: deco, decorator: fx/lib.Decorate, arguments: [*rc]}\n",
		}
		model.Params = nil
		for i, raw := range raws {
			m := model.Clone()
			// the anchors live in parameters that mean nothing else
			if i == 0 {
				m.Params = []cfg.Param{{Name: "tagName", Val: cfg.Str("plugin")}, {Name: "prio", Val: cfg.Int(5)}, {Name: "decoTag", Val: cfg.Str("deco")}}
			} else {
				m.Params = []cfg.Param{{Name: "argA", Val: cfg.Str("@a")}, {Name: "argC", Val: cfg.Str("@c")}, {Name: "tg", Val: cfg.Str("!tagged plugin")}}
			}
			if !evalRaw(t, c07RawCase{C: m, Raw: raw, Labels: []string{"written-with-anchors-and-aliases"}}) {
				return
			}
		}
	}

	idx := 0
	// (a1) all 512 reference structures on 3 parameters
	for m := 0; m < 512; m++ {
		idx++
		if !ev.Mine(idx) {
			continue
		}
		g := gen.GraphSpec{NSvc: 1, NParam: 3}
		for b := 0; b < 9; b++ {
			if m&(1<<b) != 0 {
				g.ParamRefs = append(g.ParamRefs, [2]int{b / 3, b % 3})
			}
		}
		eval(t, graphCase{G: g, Tag: "exh:3-params"})
		g.Names = 1
		eval(t, graphCase{G: g, Tag: "exh:3-params:dotted-names"})
		g.Names, g.Quote = 0, true
		eval(t, graphCase{G: g, Tag: "exh:3-params:quotation-marks-around-references"})
		g.Quote, g.Repeat = false, true
		eval(t, graphCase{G: g, Tag: "exh:3-params:first-reference-written-twice"})
	}
	col.Exhaustive("all 512 reference structures on 3 parameters, with plain names, with dotted names n, n.n, n.n.n (concatenations of two names coincide for different pairs) with quotation marks in the text around the references, and with the first reference of every parameter written twice")
	q.flush(t, 1)

	// (a2) 3 services with up to 4 @-edges (all 256 subsets), edge kinds rotating
	for m := 0; m < 512; m++ {
		bits := 0
		for b := 0; b < 9; b++ {
			if m&(1<<b) != 0 {
				bits++
			}
		}
		if bits > 4 {
			continue
		}
		idx++
		if !ev.Mine(idx) {
			continue
		}
		for place := 0; place < 4; place++ {
			g := gen.GraphSpec{NSvc: 3, Place: place % 3, Decoys: place == 2}
			if place == 3 {
				g.Names = 1 // dotted names, one reference per argument list
			}
			for b := 0; b < 9; b++ {
				if m&(1<<b) != 0 {
					kind := (b + m) % 3
					if place > 0 && m%2 == 0 {
						kind = 2 // all references of a service in one call
					}
					g.SvcRefs = append(g.SvcRefs, [3]int{b / 3, b % 3, kind})
				}
			}
			eval(t, graphCase{G: g, Tag: fmt.Sprintf("exh:3-services:place=%d", place)})
		}
	}
	col.Exhaustive("all 256 structures of at most 4 @service edges on 3 services x 4 renderings (one reference per argument list / packed into one list with a trailing literal / with a leading literal and look-alike parameter and tag names / dotted service names n, n.n, n.n.n)")
	q.flush(t, 1)

	// (a3) 2 services x 2 tags x 1..2 decorators over {@service, carries tag, !tagged, decorator-on-tag, decorator -> service/tag}
	// bits: 0-3 s@s, 4-7 carries, 8-11 !tagged, 12-15 decorator0(on t0) -> @s0,@s1,!tagged t0,!tagged t1, 16 decorator1 on t1 exists, 17-18 decorator1 -> @s0,@s1
	total := 1 << 19
	stride := 1
	if !ev.Thorough() {
		stride = 37 // quick: every 37th structure, offset by the seed; thorough: all 524288
	}
	for m := (ev.Seed() * 7) % stride; m < total; m += stride {
		idx++
		if !ev.Mine(idx) {
			continue
		}
		g := gen.GraphSpec{NSvc: 2, NTag: 2, DecTag: []int{0}, Place: (m / 3) % 3, TodoTagged: m%5 == 0}
		bit := func(b int) bool { return m&(1<<b) != 0 }
		for b := 0; b < 4; b++ {
			if bit(b) {
				g.SvcRefs = append(g.SvcRefs, [3]int{b / 2, b % 2, b % 3})
			}
			if bit(4 + b) {
				g.SvcTags = append(g.SvcTags, [2]int{b / 2, b % 2})
			}
			if bit(8 + b) {
				g.SvcTagged = append(g.SvcTagged, [3]int{b / 2, b % 2, (b + 1) % 3})
			}
		}
		if bit(12) {
			g.DecRefs = append(g.DecRefs, [2]int{0, 0})
		}
		if bit(13) {
			g.DecRefs = append(g.DecRefs, [2]int{0, 1})
		}
		if bit(14) {
			g.DecTagged = append(g.DecTagged, [2]int{0, 0})
		}
		if bit(15) {
			g.DecTagged = append(g.DecTagged, [2]int{0, 1})
		}
		if bit(16) {
			g.DecTag = append(g.DecTag, 1)
			if bit(17) {
				g.DecRefs = append(g.DecRefs, [2]int{1, 0})
			}
			if bit(18) {
				g.DecRefs = append(g.DecRefs, [2]int{1, 1})
			}
		} else if bit(17) || bit(18) {
			continue // same structure as without these bits
		}
		eval(t, graphCase{G: g, Tag: "exh:2-services-2-tags-decorators"})
		q.flush(t, 32)
		if deadlinePassed() {
			return
		}
	}
	if ev.Thorough() {
		col.Exhaustive("all structures on 2 services x 2 tags x 1..2 decorators over the five edge kinds (2^19 bit vectors)")
	}
	q.flush(t, 1)

	// (b) random sparse graphs
	setRapidChecks(pick(150, 2500))
	rapid.Check(t, func(rt *rapid.T) {
		g := gen.RandomGraph(rt, 8, 4, 3, 6, false)
		eval(rt, graphCase{G: g, Style: drawStyle(rt), Tag: "random"})
		q.flush(rt, 32)
	})
	q.flush(t, 1)
	if !deadlinePassed() {
		col.Complete()
	}
}
