//go:build verif

package checks

import (
	"bytes"
	"fmt"
	"os"
	"os/exec"
	"path/filepath"
	"sort"
	"strings"
	"testing"
	"time"

	"gopkg.in/yaml.v3"
	"pgregory.net/rapid"

	"verifh/ev"
	"verifh/sut"
)

type c19Case struct {
	Generation int    `json:"generation"` // 1: tool built from the tree; 2: tool rebuilt with the regenerated file
	PermSeed   uint64 `json:"perm_seed"`  // 0 = keep key order
	Flow       bool   `json:"flow"`       // re-serialise some collections in flow style
	SplitFile  string `json:"split_file"` // "" = no split
	SplitAt    int    `json:"split_at"`
	Explicit   bool   `json:"explicit_list"`
	Absolute   bool   `json:"absolute_patterns"`
	OtherCwd   bool   `json:"other_cwd"`
	EnvVariant int    `json:"env_variant"`
	Stub       bool   `json:"stub"`
}

func stripVersionLine(b []byte) []byte {
	var out [][]byte
	for _, ln := range bytes.Split(b, []byte("\n")) {
		if bytes.HasPrefix(ln, []byte("// gontainer version:")) {
			continue
		}
		out = append(out, ln)
	}
	return bytes.Join(out, []byte("\n"))
}

func permuteNode(n *yaml.Node, r *uint64, flow bool) {
	next := func() uint64 {
		*r += 0x9e3779b97f4a7c15
		z := *r
		z = (z ^ (z >> 30)) * 0xbf58476d1ce4e5b9
		z = (z ^ (z >> 27)) * 0x94d049bb133111eb
		return z ^ (z >> 31)
	}
	switch n.Kind {
	case yaml.DocumentNode, yaml.SequenceNode:
		for _, c := range n.Content {
			permuteNode(c, r, flow)
		}
		if n.Kind == yaml.SequenceNode && flow && next()%3 == 0 {
			n.Style = yaml.FlowStyle
		}
	case yaml.MappingNode:
		k := len(n.Content) / 2
		if *r != 0 {
			for i := k - 1; i > 0; i-- {
				j := int(next() % uint64(i+1))
				n.Content[2*i], n.Content[2*j] = n.Content[2*j], n.Content[2*i]
				n.Content[2*i+1], n.Content[2*j+1] = n.Content[2*j+1], n.Content[2*i+1]
			}
		}
		for i := 0; i < k; i++ {
			permuteNode(n.Content[2*i+1], r, flow)
		}
		if flow && next()%4 == 0 {
			n.Style = yaml.FlowStyle
		}
	}
}

func encodeDoc(n *yaml.Node) ([]byte, error) {
	var buf bytes.Buffer
	enc := yaml.NewEncoder(&buf)
	enc.SetIndent(2)
	if err := enc.Encode(n); err != nil {
		return nil, err
	}
	_ = enc.Close()
	return buf.Bytes(), nil
}

// splitServices cuts the services mapping of a document into two documents.
func splitServices(doc *yaml.Node, at int) (*yaml.Node, *yaml.Node, bool) {
	if doc.Kind != yaml.DocumentNode || len(doc.Content) == 0 || doc.Content[0].Kind != yaml.MappingNode {
		return nil, nil, false
	}
	root := doc.Content[0]
	for i := 0; i+1 < len(root.Content); i += 2 {
		if root.Content[i].Value != "services" || root.Content[i+1].Kind != yaml.MappingNode {
			continue
		}
		svcs := root.Content[i+1]
		k := len(svcs.Content) / 2
		if k < 2 {
			return nil, nil, false
		}
		cut := 1 + at%(k-1)
		second := &yaml.Node{Kind: yaml.MappingNode, Tag: "!!map", Content: append([]*yaml.Node(nil), svcs.Content[2*cut:]...)}
		first := *svcs
		first.Content = append([]*yaml.Node(nil), svcs.Content[:2*cut]...)
		r1 := *root
		r1.Content = append([]*yaml.Node(nil), root.Content...)
		r1.Content[i+1] = &first
		d1 := &yaml.Node{Kind: yaml.DocumentNode, Content: []*yaml.Node{&r1}}
		d2 := &yaml.Node{Kind: yaml.DocumentNode, Content: []*yaml.Node{{Kind: yaml.MappingNode, Tag: "!!map", Content: []*yaml.Node{
			{Kind: yaml.ScalarNode, Tag: "!!str", Value: "services"}, second}}}}
		return d1, d2, true
	}
	return nil, nil, false
}

func copyTree(src, dst string, skip func(rel string) bool) error {
	return filepath.Walk(src, func(p string, info os.FileInfo, err error) error {
		if err != nil {
			return err
		}
		rel, _ := filepath.Rel(src, p)
		if rel != "." && skip(rel) {
			if info.IsDir() {
				return filepath.SkipDir
			}
			return nil
		}
		target := filepath.Join(dst, rel)
		if info.IsDir() {
			return os.MkdirAll(target, 0o755)
		}
		if !info.Mode().IsRegular() {
			return nil
		}
		b, err := os.ReadFile(p)
		if err != nil {
			return err
		}
		return os.WriteFile(target, b, info.Mode().Perm())
	})
}

var gen2Binary string

// secondGeneration builds the tool from a scratch copy of the repository in which the
// generated container has been replaced by what the first-generation tool produces.
func secondGeneration(t tb, first *sut.Binary) string {
	if gen2Binary != "" {
		return gen2Binary
	}
	repo := ev.RepoDir()
	cp := filepath.Join(ev.ScratchDir(), "repo-gen2")
	if err := copyTree(repo, cp, func(rel string) bool { return rel == ".git" || strings.HasPrefix(rel, ".git/") }); err != nil {
		t.Fatalf("INFRA: copy repository: %v", err)
	}
	r := first.Run(cp, nil, 120*time.Second, "-i", "internal/gontainer/gontainer.yaml", "-i", "internal/gontainer/gontainer_*.yaml", "-o", "internal/gontainer/gontainer.go")
	if r.Exit != 0 {
		violation(t, "regeneration-failed", "the tool cannot regenerate its own container: "+tailLines(r.Stdout, 12), c19Case{Generation: 1})
		return ""
	}
	out := filepath.Join(ev.ScratchDir(), "bin", "gontainer-gen2")
	cmd := exec.Command("go", "build", "-o", out, ".")
	cmd.Dir = cp
	cmd.Env = append(os.Environ(), "GOFLAGS=-mod=mod")
	if b, err := cmd.CombinedOutput(); err != nil {
		violation(t, "second-generation-does-not-build", "the repository does not build with the regenerated container: "+oneLine(string(b)), c19Case{Generation: 2})
		return ""
	}
	_ = os.RemoveAll(cp)
	gen2Binary = out
	return out
}

func c19Eval(t tb, c c19Case) {
	col := ev.Get()
	repo := ev.RepoDir()
	bin, err := toolBinary()
	if err != nil {
		t.Fatalf("INFRA: %v", err)
	}
	tool := bin
	if c.Generation == 2 {
		p := secondGeneration(t, bin)
		if p == "" {
			return
		}
		tool = &sut.Binary{Path: p}
	}
	checkedIn, err := os.ReadFile(filepath.Join(repo, "internal/gontainer/gontainer.go"))
	if err != nil {
		t.Fatalf("INFRA: %v", err)
	}
	// stage the (possibly perturbed) configuration in a scratch directory shaped like the repository
	dir := scratch("c19")
	defer os.RemoveAll(dir)
	confDir := filepath.Join(dir, "internal", "gontainer")
	_ = os.MkdirAll(confDir, 0o755)
	files, _ := filepath.Glob(filepath.Join(repo, "internal/gontainer/*.yaml"))
	sort.Strings(files)
	seed := c.PermSeed
	var staged []string
	for _, f := range files {
		b, _ := os.ReadFile(f)
		name := filepath.Base(f)
		if c.PermSeed == 0 && !c.Flow && c.SplitFile != name {
			_ = os.WriteFile(filepath.Join(confDir, name), b, 0o644)
			staged = append(staged, name)
			continue
		}
		var doc yaml.Node
		if err := yaml.Unmarshal(b, &doc); err != nil {
			t.Fatalf("INFRA: %s: %v", f, err)
		}
		permuteNode(&doc, &seed, c.Flow)
		docs := []*yaml.Node{&doc}
		names := []string{name}
		if c.SplitFile == name {
			if d1, d2, ok := splitServices(&doc, c.SplitAt); ok {
				docs = []*yaml.Node{d1, d2}
				names = []string{name, strings.TrimSuffix(name, ".yaml") + "_zz.yaml"}
			}
		}
		for i, d := range docs {
			eb, err := encodeDoc(d)
			if err != nil {
				t.Fatalf("INFRA: encode: %v", err)
			}
			_ = os.WriteFile(filepath.Join(confDir, names[i]), eb, 0o644)
			staged = append(staged, names[i])
		}
	}
	var pats []string
	if c.Explicit {
		// gontainer.yaml first, then the others in lexical order (what the two documented patterns yield)
		sort.Strings(staged)
		pats = append(pats, "internal/gontainer/gontainer.yaml")
		for _, n := range staged {
			if n != "gontainer.yaml" {
				pats = append(pats, "internal/gontainer/"+n)
			}
		}
	} else {
		pats = []string{"internal/gontainer/gontainer.yaml", "internal/gontainer/gontainer_*.yaml"}
	}
	cwd := dir
	out := "internal/gontainer/regenerated.go"
	if c.Absolute || c.OtherCwd {
		for i := range pats {
			pats[i] = filepath.Join(dir, pats[i])
		}
		out = filepath.Join(dir, out)
	}
	if c.OtherCwd {
		cwd = filepath.Join(dir, "elsewhere")
		_ = os.MkdirAll(cwd, 0o755)
	}
	envs := envVariants(dir)
	r := tool.Run(cwd, envs[c.EnvVariant%len(envs)], 120*time.Second, sut.BuildArgs(pats, out, sut.Flags{Stub: c.Stub})...)
	col.Case(ev.Hash(c), true)
	col.Label(fmt.Sprintf("generation:%d", c.Generation))
	if c.PermSeed != 0 {
		col.Label("perturbation:key-permutation")
	}
	if c.Flow {
		col.Label("perturbation:re-serialisation")
	}
	if c.SplitFile != "" {
		col.Label("perturbation:split-file")
	}
	if c.Explicit {
		col.Label("perturbation:explicit-file-list")
	}
	if c.Absolute || c.OtherCwd {
		col.Label("perturbation:absolute-paths-or-other-cwd")
	}
	if r.Exit != 0 {
		violation(t, "regeneration-failed", fmt.Sprintf("generation %d: the tool rejects its own configuration: %s", c.Generation, tailLines(r.Stdout, 14)), c)
		return
	}
	outPath := out
	if !filepath.IsAbs(outPath) {
		outPath = filepath.Join(cwd, out)
	}
	got, err := os.ReadFile(outPath)
	if err != nil {
		violation(t, "regeneration-no-output", err.Error(), c)
		return
	}
	if c.Stub {
		// the stub is not checked in; it must at least be deterministic across perturbations
		col.Label("stub-regenerated")
		key := "stub"
		if prev, ok := c19Seen[key]; ok && !bytes.Equal(stripVersionLine(prev), stripVersionLine(got)) {
			violation(t, "stub-varies", "the regenerated stub differs between neutral perturbations", c)
		}
		c19Seen[key] = got
		return
	}
	a, b := stripVersionLine(got), stripVersionLine(checkedIn)
	if !bytes.Equal(a, b) {
		d := firstDiff(a, b)
		violation(t, "regenerated-differs-from-checked-in", fmt.Sprintf("generation %d: regenerated internal/gontainer/gontainer.go differs from the checked-in file at byte %d: regenerated %q, checked-in %q", c.Generation, d, around(a, d), around(b, d)), c)
		return
	}
	col.Label("fixpoint-held")
	col.Sample("perturbation", 3, c)
}

var c19Seen = map[string][]byte{}

func TestC19(t *testing.T) {
	col := ev.Get()
	col.Note("the core of this property is one deterministic comparison; the generated dimension is (neutral perturbation, generation); distinct_nontrivial counts those pairs")
	var rc c19Case
	if replayPayload(t, &rc) {
		c19Eval(t, rc)
		return
	}
	if ev.Mine(0) {
		c19Eval(t, c19Case{Generation: 1})
		c19Eval(t, c19Case{Generation: 1, Explicit: true})
	}
	if ev.Mine(1) {
		c19Eval(t, c19Case{Generation: 2})
		c19Eval(t, c19Case{Generation: 2, PermSeed: 7, Flow: true})
	}
	files, _ := filepath.Glob(filepath.Join(ev.RepoDir(), "internal/gontainer/*.yaml"))
	var names []string
	for _, f := range files {
		names = append(names, filepath.Base(f))
	}
	sort.Strings(names)
	if len(names) == 0 {
		t.Fatalf("INFRA: no configuration found under internal/gontainer")
	}
	setRapidChecks(pick(25, 400))
	rapid.Check(t, func(rt *rapid.T) {
		if deadlinePassed() {
			rt.Skip("budget used up")
		}
		c := c19Case{Generation: 1}
		if ev.Thorough() && rapid.IntRange(0, 3).Draw(rt, "gen2") == 0 {
			c.Generation = 2
		}
		if rapid.Bool().Draw(rt, "perm") {
			c.PermSeed = rapid.Uint64Range(1, 1<<40).Draw(rt, "permseed")
		}
		c.Flow = rapid.Bool().Draw(rt, "flow")
		if rapid.Bool().Draw(rt, "split") {
			c.SplitFile = rapid.SampledFrom(names).Draw(rt, "splitfile")
			c.SplitAt = rapid.IntRange(0, 20).Draw(rt, "splitat")
		}
		c.Explicit = rapid.Bool().Draw(rt, "explicit")
		c.Absolute = rapid.Bool().Draw(rt, "absolute")
		c.OtherCwd = rapid.Bool().Draw(rt, "cwd")
		c.EnvVariant = rapid.IntRange(0, 7).Draw(rt, "env")
		c.Stub = rapid.IntRange(0, 5).Draw(rt, "stub") == 0
		c19Eval(rt, c)
	})
	if !deadlinePassed() {
		col.Complete()
	}
}
