//go:build verif

package checks

import (
	"bytes"
	"fmt"
	"go/ast"
	"go/parser"
	"go/printer"
	"go/token"
	"os"
	"path/filepath"
	"sort"
	"strings"
	"sync"
	"testing"

	"pgregory.net/rapid"

	"verifh/cfg"
	"verifh/ev"
	"verifh/fx"
	"verifh/gen"
	"verifh/sut"
)

type c17Member struct {
	C      cfg.Config `json:"config"`
	Style  cfg.Style  `json:"style"`
	Labels []string   `json:"labels,omitempty"`
}

type c17Case struct {
	Members []c17Member `json:"members"`
}

var (
	typesUniOnce sync.Once
	typesUni     *fx.Universe
	typesUniErr  error
)

func typesOnlyUniverse() *fx.Universe {
	typesUniOnce.Do(func() {
		typesUni, typesUniErr = fx.NewTypesOnlyUniverse(filepath.Join(ev.ScratchDir(), "fxtypes"), ev.RepoDir())
		if typesUniErr == nil {
			typesUniErr = typesUni.UsePrivateCache(filepath.Join(ev.ScratchDir(), "gocache-fxtypes"), os.Getenv("VERIF_GOCACHE_BASE"))
		}
	})
	if typesUniErr != nil {
		panic("INFRA: types-only universe: " + typesUniErr.Error())
	}
	return typesUni
}

// apiSurface extracts package name, declared types, functions and methods (with
// signatures printed from the AST, names of parameters and results dropped).
func apiSurface(src []byte) (pkg string, decls map[string]string, err error) {
	fset := token.NewFileSet()
	f, err := parser.ParseFile(fset, "gen.go", src, 0)
	if err != nil {
		return "", nil, err
	}
	decls = map[string]string{}
	typeStr := func(e ast.Expr) string {
		var b bytes.Buffer
		_ = printer.Fprint(&b, fset, e)
		return b.String()
	}
	fieldTypes := func(fl *ast.FieldList) string {
		if fl == nil {
			return ""
		}
		var ts []string
		for _, fd := range fl.List {
			n := len(fd.Names)
			if n == 0 {
				n = 1
			}
			for i := 0; i < n; i++ {
				ts = append(ts, typeStr(fd.Type))
			}
		}
		return strings.Join(ts, ", ")
	}
	for _, d := range f.Decls {
		switch x := d.(type) {
		case *ast.FuncDecl:
			if x.Name.Name == "init" {
				continue
			}
			name := x.Name.Name
			if x.Recv != nil {
				name = "(" + fieldTypes(x.Recv) + ")." + name
			}
			decls["func "+name] = "(" + fieldTypes(x.Type.Params) + ") (" + fieldTypes(x.Type.Results) + ")"
		case *ast.GenDecl:
			if x.Tok == token.TYPE {
				for _, s := range x.Specs {
					ts := s.(*ast.TypeSpec)
					decls["type "+ts.Name.Name] = typeStr(ts.Type)
				}
			}
		}
	}
	return f.Name.Name, decls, nil
}

func c17Eval(t tb, c c17Case) {
	col := ev.Get()
	u := universe()
	tu := typesOnlyUniverse()
	type item struct {
		m                   c17Member
		normal, stub, types *fx.Container
	}
	var items []*item
	for _, m := range c.Members {
		one := c17Case{Members: []c17Member{m}}
		text, err := cfg.Emit(m.C, m.Style)
		if err != nil {
			col.Exclude("serialiser-self-check")
			continue
		}
		files := []File{{Name: "gontainer.yaml", Content: text}}
		oN := runInproc(Spec{Files: files})
		oS := runInproc(Spec{Files: files, Flags: sut.Flags{Stub: true}})
		userTyped := false
		for _, s := range m.C.Services {
			if s.Getter != nil && s.Type != nil {
				userTyped = true
			}
		}
		col.Case(ev.Hash(m), userTyped)
		for _, l := range m.Labels {
			col.Label(l)
		}
		vN, vS := observeVerdict(oN), observeVerdict(oS)
		sort.Strings(vN.Cycles)
		sort.Strings(vS.Cycles)
		if vN.Stage != vS.Stage || strings.Join(vN.factList(), ";") != strings.Join(vS.factList(), ";") || strings.Join(vN.Cycles, ";") != strings.Join(vS.Cycles, ";") {
			oN.cleanup()
			oS.cleanup()
			key := "decision-differs"
			for _, l := range m.Labels {
				// known class K3: a Go expression that cannot be valid Go is only noticed by the code formatter,
				// and the stub never emits it
				if strings.HasPrefix(l, "format-only:") && vS.Stage == "accept" && vN.Stage == "generate" {
					key = "format-only-rejection:" + strings.TrimPrefix(l, "format-only:")
				}
			}
			violation(t, key, fmt.Sprintf("normal mode: %s %v %v; stub mode: %s %v %v", vN.Stage, vN.factList(), vN.Cycles, vS.Stage, vS.factList(), vS.Cycles), one)
			continue
		}
		if vN.Stage != "accept" {
			col.Label("rejected-in-both-modes:" + vN.Stage)
			if oS.Exists || oN.Exists {
				violation(t, "rejected-but-wrote", "a rejected run wrote the output file", one)
			}
			oN.cleanup()
			oS.cleanup()
			continue
		}
		col.Label("accepted-in-both-modes")
		srcN, srcS := oN.Out, oS.Out
		oN.cleanup()
		oS.cleanup()
		if !bytes.HasPrefix(srcS, []byte("//go:build gontainerstub\n// +build gontainerstub\n")) {
			violation(t, "stub-build-constraint", "stub output does not start with the gontainerstub build constraint lines", one)
			continue
		}
		if err := checkGeneratedSource(srcS, true); err != nil {
			violation(t, "stub-static", err.Error(), one)
			continue
		}
		pN, dN, errN := apiSurface(srcN)
		pS, dS, errS := apiSurface(srcS)
		if errN != nil || errS != nil {
			violation(t, "parse", fmt.Sprintf("normal: %v stub: %v", errN, errS), one)
			continue
		}
		if pN != pS {
			violation(t, "package-differs", fmt.Sprintf("package clause: normal %s, stub %s", pN, pS), one)
			continue
		}
		bad := ""
		for k, v := range dN {
			if strings.Contains(k, "._") { // private runtime helpers of the normal output
				continue
			}
			if w, ok := dS[k]; !ok {
				bad = "stub lacks " + k + " " + v
			} else if w != v {
				bad = fmt.Sprintf("%s: normal %s, stub %s", k, v, w)
			}
		}
		for k, v := range dS {
			if _, ok := dN[k]; !ok {
				bad = "stub declares " + k + " " + v + ", which the normal output does not"
			}
		}
		if bad != "" {
			violation(t, "api-surface-differs", bad, one)
			continue
		}
		pkg, typ, ctor := expectedNames(m.C)
		script := fx.Script{Ops: []fx.Op{{Op: "methods"}}}
		for _, s := range m.C.Services {
			if s.Getter != nil && !s.IsTodo() && exportedName(*s.Getter) {
				script.Ops = append(script.Ops, fx.Op{Op: "getter", ID: *s.Getter}, fx.Op{Op: "getter", ID: *s.Getter, Ctx: "A"},
					fx.Op{Op: "must", ID: "Must" + *s.Getter}, fx.Op{Op: "must", ID: "Must" + *s.Getter, Ctx: "A"})
			}
		}
		it := &item{m: m}
		it.normal = &fx.Container{Name: u.NextName(), Pkg: pkg, Type: typ, Ctor: ctor, Source: srcN, Script: fx.Script{Ops: []fx.Op{{Op: "methods"}}}}
		it.stub = &fx.Container{Name: u.NextName(), Pkg: pkg, Type: typ, Ctor: ctor, Source: srcS, Script: script}
		it.types = &fx.Container{Name: tu.NextName(), Pkg: pkg, Type: typ, Ctor: ctor, Source: srcS}
		items = append(items, it)
		col.Sample("pair", 2, map[string]any{"config": text, "labels": m.Labels})
	}
	if len(items) == 0 {
		return
	}
	var ns, ss, ts []*fx.Container
	for _, it := range items {
		ns, ss, ts = append(ns, it.normal), append(ss, it.stub), append(ts, it.types)
	}
	if err := u.BuildBatch(ns, ""); err != nil {
		t.Fatalf("INFRA: %v", err)
	}
	if err := u.BuildBatch(ss, "gontainerstub"); err != nil {
		t.Fatalf("INFRA: %v", err)
	}
	if err := tu.CompileOnly(ts, "gontainerstub"); err != nil {
		t.Fatalf("INFRA: %v", err)
	}
	dropped := 0
	for _, it := range items {
		one := c17Case{Members: []c17Member{it.m}}
		if it.normal.CompileErr != "" || it.normal.Out == nil {
			dropped++
			col.Exclude("normal-output-does-not-compile")
			continue
		}
		if it.stub.CompileErr != "" {
			violation(t, "stub-does-not-compile", "normal output compiles, stub output does not: "+oneLine(it.stub.CompileErr), one)
			continue
		}
		if it.types.CompileErr != "" {
			violation(t, "stub-needs-values", "stub output does not compile against packages that declare types only: "+oneLine(it.types.CompileErr), one)
			continue
		}
		if it.stub.Out == nil || it.stub.Crashed != "" {
			violation(t, "stub-probe", "stub package could not be probed: "+oneLine(it.stub.Crashed), one)
			continue
		}
		if it.stub.Out.CtorPanic != "stub" {
			violation(t, "stub-constructor", fmt.Sprintf("stub constructor: expected panic \"stub\", observed %q (alive=%v)", it.stub.Out.CtorPanic, it.stub.Out.Alive), one)
			continue
		}
		norm := func(c *fx.Container, r fx.Res) string {
			var l []string
			for _, m := range r.Methods {
				l = append(l, m.Name+" "+strings.ReplaceAll(m.Sig, "fx/g/"+c.Name+".", "OWN."))
			}
			return r.TypeName + "\n" + strings.Join(l, "\n")
		}
		var mN, mS fx.Res
		for _, r := range it.normal.Out.Res {
			if r.Op == "methods" {
				mN = r
			}
		}
		ok := true
		for _, r := range it.stub.Out.Res {
			switch r.Op {
			case "methods":
				mS = r
			case "getter", "must":
				if r.Missing {
					continue
				}
				if r.Panic != "stub" {
					violation(t, "stub-getter-does-not-panic", fmt.Sprintf("stub method %s: expected panic \"stub\", observed panic=%q err=%q", r.ID, r.Panic, r.Err), one)
					ok = false
				} else {
					col.Label("stub-getter-panicked")
				}
			}
		}
		if !ok {
			continue
		}
		if norm(it.normal, mN) != norm(it.stub, mS) {
			violation(t, "method-set-differs", fmt.Sprintf("reflected method sets differ:\nnormal:\n%s\nstub:\n%s", norm(it.normal, mN), norm(it.stub, mS)), one)
			continue
		}
		col.Label("parity-verified")
	}
	if dropped*2 > len(items) && len(items) >= 4 {
		t.Fatalf("INFRA: more than half of the normal outputs of a batch did not compile (%d of %d); inconclusive on this tree", dropped, len(items))
	}
}

func TestC17(t *testing.T) {
	col := ev.Get()
	var rc c17Case
	if replayPayload(t, &rc) {
		c17Eval(t, rc)
		return
	}
	for _, f := range regressFiles("C17") {
		var c c17Case
		loadRegress(t, f, &c)
		c17Eval(t, c)
		col.Label("regress")
	}
	// configurations whose only defect is a Go expression that cannot be valid Go (keyword as identifier, parameter
	// function argument that is no Go expression): enumerated per position
	if ev.Mine(0) {
		var c c17Case
		for _, kw := range []string{"func", "type", "go", "range"} {
			base := func() cfg.Config { return cfg.Config{Meta: cfg.Meta{Pkg: sp("app")}} }
			add := func(class string, conf cfg.Config) {
				c.Members = append(c.Members, c17Member{C: conf, Labels: []string{"format-only:" + class, "keyword:" + kw}})
			}
			x := base()
			x.Services = []cfg.Service{{Name: "s", Ctor: sp(kw)}}
			add("constructor-is-keyword", x)
			x = base()
			x.Services = []cfg.Service{{Name: "s", Value: sp(kw)}}
			add("value-is-keyword", x)
			x = base()
			x.Services = []cfg.Service{{Name: "s", Ctor: sp("fx/lib.NewObj"), Tags: []cfg.Tag{{Name: "t"}}}}
			x.Decorators = []cfg.Decorator{{Tag: "t", Fn: kw}}
			add("decorator-is-keyword", x)
			x = base()
			x.Meta.Functions = []cfg.KV{{K: "f", V: kw}}
			x.Params = []cfg.Param{{Name: "p", Val: cfg.Str("%f()%")}}
			add("function-is-keyword", x)
			x = base()
			x.Services = []cfg.Service{{Name: "s", Ctor: sp("fx/lib.NewObj"), Args: []cfg.Val{cfg.Str("!value " + kw)}}}
			add("value-argument-is-keyword", x)
		}
		for _, arg := range []string{`"`, `1 2`, `)(`, `func`} {
			x := cfg.Config{Meta: cfg.Meta{Pkg: sp("app")}, Params: []cfg.Param{{Name: "p", Val: cfg.Str("%env(" + arg + ")%")}}}
			c.Members = append(c.Members, c17Member{C: x, Labels: []string{"format-only:function-argument-not-go:parameter"}})
			y := cfg.Config{Meta: cfg.Meta{Pkg: sp("app")}, Services: []cfg.Service{{Name: "s", Ctor: sp("fx/lib.NewObj"), Args: []cfg.Val{cfg.Str("%env(" + arg + ")%")}}}}
			c.Members = append(c.Members, c17Member{C: y, Labels: []string{"format-only:function-argument-not-go:service-argument"}})
		}
		c17Eval(t, c)
	}
	batch := pick(16, 24)
	setRapidChecks(pick(5, 45))
	opts := gen.All()
	opts.PkgMain = false
	rapid.Check(t, func(rt *rapid.T) {
		if deadlinePassed() {
			rt.Skip("budget used up")
		}
		var c c17Case
		k := rapid.IntRange(batch/2, batch).Draw(rt, "batch")
		for i := 0; i < k; i++ {
			conf, labels := gen.Valid(rt, opts)
			lb := labels.List()
			if rapid.IntRange(0, 3).Draw(rt, "defect?") == 0 {
				switch rapid.IntRange(0, 4).Draw(rt, "defect") {
				case 0:
					lb = append(lb, gen.InjectDanglingParam(rt, &conf, "d"))
				case 1:
					lb = append(lb, gen.InjectDanglingService(rt, &conf, "d"))
				case 2:
					lb = append(lb, gen.InjectCycle(rt, &conf, "d"))
				case 3:
					lb = append(lb, gen.InjectScopeConflict(rt, &conf, "d"))
				case 4:
					lb = append(lb, gen.InjectGrammarDefect(rt, &conf, "d"))
				}
			}
			c.Members = append(c.Members, c17Member{C: conf, Style: drawStyle(rt), Labels: lb})
		}
		c17Eval(rt, c)
	})
	if !deadlinePassed() {
		col.Complete()
	}
}
