//go:build verif

package checks

import (
	"fmt"
	"os"
	"strings"
	"testing"
	"unicode"

	"gopkg.in/yaml.v3"
	"pgregory.net/rapid"

	"verifh/cfg"
	"verifh/ev"
	"verifh/gen"
	"verifh/ref"
	"verifh/sut"
)

var c11Alphabet = []string{"a", "Z", "1", ".", "-", "_", "/", "\"", "*", "&", "{", "}", " "}

func c11Strings(L int) []string {
	out := []string{""}
	prev := []string{""}
	for l := 1; l <= L; l++ {
		var cur []string
		for _, p := range prev {
			for _, a := range c11Alphabet {
				cur = append(cur, p+a)
			}
		}
		out = append(out, cur...)
		prev = cur
	}
	return out
}

// gPos is one grammar position: how a candidate string is placed into a configuration.
type gPos struct {
	name   string
	single bool // one candidate per configuration (scalar attributes of meta)
	names  bool // a name position: enumerated one symbol longer in the thorough tier
	place  func(c *cfg.Config, i int, s string)
}

func c11Positions() []gPos {
	k := func(i int) string { return fmt.Sprintf("k%d", i) }
	ctor := sp("fx/lib.NewObj")
	return []gPos{
		{name: "param-name", names: true, place: func(c *cfg.Config, i int, s string) {
			c.Params = append(c.Params, cfg.Param{Name: s, Val: cfg.Int(int64(i))})
		}},
		{name: "service-name", names: true, place: func(c *cfg.Config, i int, s string) {
			c.Services = append(c.Services, cfg.Service{Name: s, Ctor: ctor})
		}},
		{name: "service-tag", names: true, place: func(c *cfg.Config, i int, s string) {
			c.Services = append(c.Services, cfg.Service{Name: k(i), Ctor: ctor, Tags: []cfg.Tag{{Name: s}}})
		}},
		{name: "import-alias", names: true, place: func(c *cfg.Config, i int, s string) {
			c.Meta.Imports = append(c.Meta.Imports, cfg.KV{K: s, V: "fx/lib"})
		}},
		{name: "import-path", place: func(c *cfg.Config, i int, s string) {
			c.Meta.Imports = append(c.Meta.Imports, cfg.KV{K: k(i), V: s})
		}},
		{name: "function-name", place: func(c *cfg.Config, i int, s string) {
			c.Meta.Functions = append(c.Meta.Functions, cfg.KV{K: s, V: "fx/lib.Echo"})
		}},
		{name: "function-go-func", place: func(c *cfg.Config, i int, s string) {
			c.Meta.Functions = append(c.Meta.Functions, cfg.KV{K: k(i), V: s})
		}},
		{name: "getter", place: func(c *cfg.Config, i int, s string) {
			c.Services = append(c.Services, cfg.Service{Name: k(i), Ctor: ctor, Getter: sp(s)})
		}},
		{name: "type", place: func(c *cfg.Config, i int, s string) {
			c.Services = append(c.Services, cfg.Service{Name: k(i), Ctor: ctor, Type: sp(s)})
		}},
		{name: "value", place: func(c *cfg.Config, i int, s string) {
			c.Services = append(c.Services, cfg.Service{Name: k(i), Value: sp(s)})
		}},
		{name: "constructor", place: func(c *cfg.Config, i int, s string) {
			c.Services = append(c.Services, cfg.Service{Name: k(i), Ctor: sp(s)})
		}},
		{name: "call-method", place: func(c *cfg.Config, i int, s string) {
			c.Services = append(c.Services, cfg.Service{Name: k(i), Ctor: ctor, Calls: []cfg.Call{{Method: s}}})
		}},
		{name: "field-name", place: func(c *cfg.Config, i int, s string) {
			c.Services = append(c.Services, cfg.Service{Name: k(i), Ctor: ctor, Fields: []cfg.Field{{Name: s, Val: cfg.Int(1)}}})
		}},
		{name: "decorator-tag", place: func(c *cfg.Config, i int, s string) {
			c.Decorators = append(c.Decorators, cfg.Decorator{Tag: s, Fn: "fx/lib.Decorate"})
		}},
		{name: "decorator-method", place: func(c *cfg.Config, i int, s string) {
			c.Decorators = append(c.Decorators, cfg.Decorator{Tag: "kt", Fn: s})
		}},
		{name: "arg-service", place: func(c *cfg.Config, i int, s string) {
			c.Services = append(c.Services, cfg.Service{Name: k(i), Ctor: ctor, Args: []cfg.Val{cfg.Str("@" + s)}})
		}},
		{name: "arg-tagged", place: func(c *cfg.Config, i int, s string) {
			c.Services = append(c.Services, cfg.Service{Name: k(i), Ctor: ctor, Fields: []cfg.Field{{Name: "FieldA", Val: cfg.Str("!tagged " + s)}}})
		}},
		{name: "arg-value", place: func(c *cfg.Config, i int, s string) {
			c.Services = append(c.Services, cfg.Service{Name: k(i), Ctor: ctor, Calls: []cfg.Call{{Method: "Call1", Args: []cfg.Val{cfg.Str("!value " + s)}}}})
		}},
		{name: "decorator-arg-service", place: func(c *cfg.Config, i int, s string) {
			c.Decorators = append(c.Decorators, cfg.Decorator{Tag: "kt", Fn: "fx/lib.Decorate", Args: []cfg.Val{cfg.Str("@" + s)}})
		}},
		{name: "meta-pkg", single: true, place: func(c *cfg.Config, i int, s string) { c.Meta.Pkg = sp(s) }},
		{name: "meta-container-type", single: true, place: func(c *cfg.Config, i int, s string) { c.Meta.Type = sp(s) }},
		{name: "meta-container-constructor", single: true, place: func(c *cfg.Config, i int, s string) { c.Meta.Ctor = sp(s) }},
	}
}

type c11Case struct {
	Position   string   `json:"position"`
	Candidates []string `json:"candidates"`
}

func c11Build(p gPos, cands []string) cfg.Config {
	c := cfg.Config{Meta: cfg.Meta{Pkg: sp("app")}}
	for i, s := range cands {
		p.place(&c, i, s)
	}
	return c
}

// allPositions places every candidate into every position that admits several candidates per configuration at once
// (each occurrence on keys of its own): what a position accepts must not depend on the string occurring elsewhere.
func allPositions() gPos {
	ps := c11Positions()
	return gPos{name: "all-positions", place: func(c *cfg.Config, i int, s string) {
		for pi, p := range ps {
			if !p.single {
				p.place(c, i*64+pi, s)
			}
		}
	}}
}

func findPos(name string) (gPos, bool) {
	if name == "all-positions" {
		return allPositions(), true
	}
	for _, p := range c11Positions() {
		if p.name == name {
			return p, true
		}
	}
	return gPos{}, false
}

// c11Eval runs one batch and compares verdict and the exact set of named keys.
func c11Eval(t tb, cs c11Case) {
	col := ev.Get()
	p, ok := findPos(cs.Position)
	if !ok {
		t.Fatalf("unknown position %s", cs.Position)
	}
	c := c11Build(p, cs.Candidates)
	spec, err := singleFile(c, cfg.Style{Quotes: true, Seed: uint64(len(cs.Candidates))}, sut.Flags{})
	if err != nil {
		// duplicate or unrepresentable keys: split the batch
		if len(cs.Candidates) > 1 {
			h := len(cs.Candidates) / 2
			c11Eval(t, c11Case{Position: cs.Position, Candidates: cs.Candidates[:h]})
			c11Eval(t, c11Case{Position: cs.Position, Candidates: cs.Candidates[h:]})
			return
		}
		col.Exclude("serialiser-self-check")
		return
	}
	a := ref.Analyse(c)
	o := runInproc(spec)
	defer o.cleanup()
	rejected := len(a.InputFacts) + len(a.SvcFacts) + len(a.DecFacts)
	for _, s := range cs.Candidates {
		plain := s != "" && strings.Trim(s, "abcdefghijklmnopqrstuvwxyz") == ""
		col.Case(ev.HashStr(cs.Position, s), !plain)
	}
	col.LabelN("position:"+cs.Position, len(cs.Candidates))
	col.LabelN("expected-rejections", rejected)
	if len(cs.Candidates) > 0 {
		n := len(cs.Candidates)
		col.Sample("position:"+cs.Position, 1, map[string]any{"position": cs.Position, "candidates_in_this_run": n,
			"some_candidates": []string{cs.Candidates[0], cs.Candidates[n/2], cs.Candidates[n-1]}, "expected_rejections": rejected, "reported": len(o.Report.Errors)})
	}
	if key, what := compareVerdict(a, sut.Flags{}, o); key != "" {
		// shrink by hand: find a single candidate that still disagrees
		if len(cs.Candidates) > 1 {
			for _, s := range cs.Candidates {
				one := c11Case{Position: cs.Position, Candidates: []string{s}}
				c1 := c11Build(p, one.Candidates)
				if spec1, err := singleFile(c1, cfg.Style{Quotes: true}, sut.Flags{}); err == nil {
					o1 := runInproc(spec1)
					k1, w1 := compareVerdict(ref.Analyse(c1), sut.Flags{}, o1)
					o1.cleanup()
					if k1 != "" {
						violation(t, cs.Position+":"+k1, fmt.Sprintf("position %s, candidate %q: %s", cs.Position, s, w1), one)
						return
					}
				}
			}
		}
		violation(t, cs.Position+":"+key, fmt.Sprintf("position %s: %s", cs.Position, what), cs)
	}
}

// ---------------------------------------------------------------------------
// node-kind confusion (c) and shapes of calls and tags

type c11Raw struct {
	Name string `json:"name"`
	YAML string `json:"yaml"`
	Want string `json:"want"` // accept, read (parse failure naming the file), input:<key>|<attr>
}

func c11RawCases() []c11Raw {
	svc := func(body string) string { return "services:\n  s:\n" + body }
	r := []c11Raw{
		// collection where a scalar is expected
		{"getter-seq", svc("    constructor: fx/lib.NewObj\n    getter: [a]\n"), "read"},
		{"getter-map", svc("    constructor: fx/lib.NewObj\n    getter: {a: 1}\n"), "read"},
		{"constructor-seq", svc("    constructor: [fx/lib.NewObj]\n"), "read"},
		{"value-map", svc("    value: {a: b}\n"), "read"},
		{"type-seq", svc("    constructor: fx/lib.NewObj\n    type: [x]\n"), "read"},
		{"scope-seq", svc("    constructor: fx/lib.NewObj\n    scope: [shared]\n"), "read"},
		{"todo-seq", svc("    todo: [true]\n"), "read"},
		{"must-getter-map", svc("    constructor: fx/lib.NewObj\n    getter: G\n    must_getter: {a: 1}\n"), "read"},
		{"pkg-seq", "meta:\n  pkg: [a]\n", "read"},
		{"default-must-getter-seq", "meta:\n  default_must_getter: [true]\n", "read"},
		{"import-value-seq", "meta:\n  imports:\n    a: [b]\n", "read"},
		{"function-value-map", "meta:\n  functions:\n    a: {b: c}\n", "read"},
		{"decorator-tag-seq", "decorators:\n  - tag: [t]\n    decorator: fx/lib.Decorate\n", "read"},
		// scalar where a collection is expected
		{"services-scalar", "services: 5\n", "read"},
		{"service-scalar", "services:\n  s: text\n", "read"},
		{"parameters-scalar", "parameters: text\n", "read"},
		{"parameters-seq", "parameters: [1, 2]\n", "read"},
		{"meta-scalar", "meta: text\n", "read"},
		{"imports-scalar", "meta:\n  imports: text\n", "read"},
		{"functions-seq", "meta:\n  functions: [a]\n", "read"},
		{"arguments-scalar", svc("    constructor: fx/lib.NewObj\n    arguments: text\n"), "read"},
		{"arguments-map", svc("    constructor: fx/lib.NewObj\n    arguments: {a: 1}\n"), "read"},
		{"calls-scalar", svc("    constructor: fx/lib.NewObj\n    calls: text\n"), "read"},
		{"fields-seq", svc("    constructor: fx/lib.NewObj\n    fields: [a]\n"), "read"},
		{"tags-scalar", svc("    constructor: fx/lib.NewObj\n    tags: t\n"), "read"},
		{"decorators-map", "decorators: {tag: t}\n", "read"},
		{"decorators-scalar", "decorators: text\n", "read"},
		{"decorator-arguments-scalar", "decorators:\n  - tag: t\n    decorator: fx/lib.Decorate\n    arguments: text\n", "read"},
		// null is "unset"
		{"null-services", "services: ~\nparameters: ~\nmeta: ~\ndecorators: ~\n", "accept"},
		{"null-attributes", svc("    constructor: fx/lib.NewObj\n    getter: ~\n    type: ~\n    value: ~\n    arguments: ~\n    calls: ~\n    fields: ~\n    tags: ~\n    scope: ~\n    todo: ~\n    must_getter: ~\n"), "accept"},
		{"null-meta-attributes", "meta:\n  pkg: ~\n  container_type: ~\n  container_constructor: ~\n  default_must_getter: ~\n  imports: ~\n  functions: ~\n", "accept"},
		// collections in primitive positions: validation error naming the key
		{"param-seq", "parameters:\n  p: [1, 2]\n", "input:param:p|type"},
		{"param-map", "parameters:\n  p: {a: 1}\n", "input:param:p|type"},
		{"arg-seq", svc("    constructor: fx/lib.NewObj\n    arguments: [[1]]\n"), "input:service:s|arguments"},
		{"arg-map", svc("    constructor: fx/lib.NewObj\n    arguments: [{a: 1}]\n"), "input:service:s|arguments"},
		{"call-arg-seq", svc("    constructor: fx/lib.NewObj\n    calls: [[M, [[1]]]]\n"), "input:service:s|calls"},
		{"field-map", svc("    constructor: fx/lib.NewObj\n    fields:\n      F: {a: 1}\n"), "input:service:s|fields"},
		{"decorator-arg-seq", "decorators:\n  - tag: t\n    decorator: fx/lib.Decorate\n    arguments: [[1]]\n", "input:decorator:0|arguments"},
		// call shapes
		{"call-empty", svc("    constructor: fx/lib.NewObj\n    calls: [[]]\n"), "read"},
		{"call-four", svc("    constructor: fx/lib.NewObj\n    calls: [[M, [], true, 1]]\n"), "read"},
		{"call-method-int", svc("    constructor: fx/lib.NewObj\n    calls: [[5]]\n"), "read"},
		{"call-args-scalar", svc("    constructor: fx/lib.NewObj\n    calls: [[M, x]]\n"), "read"},
		{"call-wither-string", svc("    constructor: fx/lib.NewObj\n    calls: [[M, [], \"true\"]]\n"), "read"},
		{"call-scalar", svc("    constructor: fx/lib.NewObj\n    calls: [M]\n"), "read"},
		{"call-one", svc("    constructor: fx/lib.NewObj\n    calls: [[M]]\n"), "accept"},
		{"call-two", svc("    constructor: fx/lib.NewObj\n    calls: [[M, [1, x]]]\n"), "accept"},
		{"call-three", svc("    constructor: fx/lib.NewObj\n    calls: [[M, [], false]]\n"), "accept"},
		// tag shapes
		{"tag-int", svc("    constructor: fx/lib.NewObj\n    tags: [5]\n"), "read"},
		{"tag-seq", svc("    constructor: fx/lib.NewObj\n    tags: [[t]]\n"), "read"},
		{"tag-no-name", svc("    constructor: fx/lib.NewObj\n    tags: [{priority: 1}]\n"), "read"},
		{"tag-name-int", svc("    constructor: fx/lib.NewObj\n    tags: [{name: 5}]\n"), "read"},
		{"tag-priority-string", svc("    constructor: fx/lib.NewObj\n    tags: [{name: t, priority: \"1\"}]\n"), "read"},
		{"tag-priority-float", svc("    constructor: fx/lib.NewObj\n    tags: [{name: t, priority: 1.5}]\n"), "read"},
		{"tag-object", svc("    constructor: fx/lib.NewObj\n    tags: [{name: t, priority: -5}, {name: u}]\n"), "accept"},
		{"tag-duplicate", svc("    constructor: fx/lib.NewObj\n    tags: [t, {name: t, priority: 2}]\n"), "input:service:s|tags"},
		// scope keywords
		{"scope-unknown", svc("    constructor: fx/lib.NewObj\n    scope: singleton\n"), "read"},
		{"scope-empty", svc("    constructor: fx/lib.NewObj\n    scope: \"\"\n"), "read"},
		{"scope-case", svc("    constructor: fx/lib.NewObj\n    scope: Shared\n"), "read"},
		{"scope-shared", svc("    constructor: fx/lib.NewObj\n    scope: shared\n"), "accept"},
		{"scope-contextual", svc("    constructor: fx/lib.NewObj\n    scope: contextual\n"), "accept"},
		{"scope-non-shared", svc("    constructor: fx/lib.NewObj\n    scope: non_shared\n"), "accept"},
		// creation-method rules
		{"creation-none", svc("    getter: G\n"), "input:service:s|creation"},
		{"creation-empty", "services:\n  s: {}\n", "input:service:s|creation"},
		{"creation-ctor+value", svc("    constructor: fx/lib.NewObj\n    value: fx/lib.GlobalObj\n"), "input:service:s|creation"},
		{"creation-args-without-ctor", svc("    value: fx/lib.GlobalObj\n    arguments: [1]\n"), "input:service:s|creation"},
		{"creation-args-type-only", svc("    type: fx/lib.Val\n    arguments: [1]\n"), "input:service:s|creation"},
		{"creation-empty-args-without-ctor", svc("    value: fx/lib.GlobalObj\n    arguments: []\n"), "accept"},
		{"creation-type-only", svc("    type: fx/lib.Val\n"), "accept"},
		{"creation-ctor+type", svc("    constructor: fx/lib.NewObj\n    type: \"*fx/lib.Obj\"\n"), "accept"},
		{"creation-value+type", svc("    value: fx/lib.GlobalObj\n    type: \"*fx/lib.Obj\"\n"), "accept"},
		{"must-getter-without-getter", svc("    constructor: fx/lib.NewObj\n    must_getter: true\n"), "compile:s"},
		{"must-getter-false-without-getter", svc("    constructor: fx/lib.NewObj\n    must_getter: false\n"), "accept"},
		// todo exemption: attributes are not checked, the name is
		{"todo-invalid-attributes", "services:\n  s:\n    todo: true\n    getter: MustX\n    constructor: \"not a func\"\n    type: \"**\"\n    value: \"{}\"\n    tags: [\"bad tag\", \"bad tag\"]\n    fields: {\"1\": [1]}\n    calls: [[\"M-\"]]\n    arguments: [[1]]\n", "accept"},
		{"todo-invalid-name", "services:\n  \"bad name\":\n    todo: true\n", "input:service:bad name|name"},
		{"todo-shares-getter-with-a-real-service", "services:\n  ph:\n    todo: true\n    getter: GetX\n  real:\n    constructor: fx/lib.NewObj\n    getter: GetX\n", "accept"},
		{"two-todos-share-getter-with-a-real-service", "services:\n  ph1:\n    todo: true\n    getter: GetX\n  ph2:\n    todo: true\n    getter: GetX\n  real:\n    constructor: fx/lib.NewObj\n    getter: GetX\n  z:\n    todo: true\n    getter: GetX\n", "accept"},
		{"todos-share-getter-among-themselves", "services:\n  ph1:\n    todo: true\n    getter: GetX\n  ph2:\n    todo: true\n    getter: GetX\n", "accept"},
		{"todo-with-reserved-getter-and-must-getter-without-getter", "services:\n  ph1:\n    todo: true\n    getter: Get\n  ph2:\n    todo: true\n    must_getter: true\n  real:\n    constructor: fx/lib.NewObj\n    getter: GetReal\n", "accept"},
		{"todo-duplicate-still-reported-for-the-real-ones", "services:\n  ph:\n    todo: true\n    getter: GetX\n  r1:\n    constructor: fx/lib.NewObj\n    getter: GetX\n  r2:\n    constructor: fx/lib.NewObj\n    getter: GetX\n", "input:service:r2|getter"},
		{"tag-priority-above-maxint64", svc("    constructor: fx/lib.NewObj\n    tags: [{name: t, priority: 9223372036854775808}]\n"), "read"},
		{"tag-priority-maxuint64", svc("    constructor: fx/lib.NewObj\n    tags: [{name: t, priority: 18446744073709551615}]\n"), "read"},
		{"tag-priority-maxint64", svc("    constructor: fx/lib.NewObj\n    tags: [{name: t, priority: 9223372036854775807}, {name: u, priority: -9223372036854775808}]\n"), "accept"},
		{"tag-priority-float-integral", svc("    constructor: fx/lib.NewObj\n    tags: [{name: t, priority: 1.0}]\n"), "read"},
		{"tag-priority-hex-and-octal", svc("    constructor: fx/lib.NewObj\n    tags: [{name: t, priority: 0x10}, {name: u, priority: 0o17}]\n"), "accept"},
		{"todo-false-invalid", "services:\n  s:\n    todo: false\n    getter: MustX\n    constructor: fx/lib.NewObj\n", "input:service:s|getter"},
	}
	return r
}

func c11EvalRaw(t tb, rc c11Raw) {
	col := ev.Get()
	// the document itself must be well-formed YAML (otherwise the case says nothing about node kinds)
	var decoded interface{}
	if err := yaml.Unmarshal([]byte(rc.YAML), &decoded); err != nil {
		t.Fatalf("INFRA: raw case %s is not well-formed YAML: %v", rc.Name, err)
	}
	o := runInproc(Spec{Files: []File{{Name: "raw.yaml", Content: rc.YAML}}})
	defer o.cleanup()
	obs := observeVerdict(o)
	col.Case(ev.HashStr("raw", rc.Name, rc.YAML), rc.Want != "accept")
	col.Label("node-kind-or-shape:" + strings.SplitN(rc.Want, ":", 2)[0])
	col.Sample("document:"+strings.SplitN(rc.Want, ":", 2)[0], 1, map[string]any{"name": rc.Name, "yaml": rc.YAML, "expected": rc.Want, "observed_stage": obs.Stage, "reported": o.Report.Errors})
	fail := func(what string) {
		violation(t, "raw:"+rc.Name, fmt.Sprintf("%s: %s; stage=%s facts=%v other=%v :: %s", rc.Name, what, obs.Stage, obs.factList(), obs.Other, oneLine(rc.YAML)), rc)
	}
	switch {
	case obs.Stage == "panic":
		fail("tool panicked")
	case rc.Want == "accept":
		if obs.Stage != "accept" {
			fail("expected acceptance")
		}
	case rc.Want == "read":
		if obs.Stage != "read" {
			fail("expected a parse failure in the Read config step")
			return
		}
		named := false
		for _, e := range o.Report.Errors {
			if strings.Contains(e, "raw.yaml") {
				named = true
			}
		}
		if !named {
			fail("the parse failure does not name the file")
		}
	case strings.HasPrefix(rc.Want, "input:"):
		want := "input|" + strings.TrimPrefix(rc.Want, "input:")
		if obs.Stage != "input" {
			fail("expected a validation error " + want)
			return
		}
		key := strings.SplitN(want, "|", 3)
		found := false
		for f := range obs.Facts {
			p := strings.SplitN(f, "|", 3)
			if p[1] == key[1] && (p[2] == key[2] || p[2] == "?") {
				found = true
			}
		}
		if !found {
			fail("expected the diagnostics to name " + want)
		}
	case strings.HasPrefix(rc.Want, "compile:"):
		if obs.Stage != "services" || !obs.Facts["arg|"+strings.TrimPrefix(rc.Want, "compile:")+"|"] {
			fail("expected a compile error naming the service")
		}
	}
}

// ---------------------------------------------------------------------------
// (b) valid forms with edits

func genValidForm(rt *rapid.T, pos string) string {
	ident := rapid.StringMatching(`[A-Za-z][A-Za-z0-9_]{0,4}`)
	imp := rapid.StringMatching(`[a-z][a-z0-9]{0,3}(/[a-z][a-z0-9.-]{0,4}){0,2}`)
	name := rapid.StringMatching(`[A-Za-z]([._-]?[A-Za-z0-9]){0,5}`)
	quote := func(s string) string {
		switch rapid.IntRange(0, 2).Draw(rt, "quote") {
		case 0:
			return s
		case 1:
			return `"` + s + `"`
		}
		return `"."`
	}
	withImport := func(sym string) string {
		if rapid.Bool().Draw(rt, "imp?") {
			return quote(imp.Draw(rt, "imp")) + "." + sym
		}
		return sym
	}
	switch pos {
	case "param-name", "service-name", "service-tag", "import-alias", "arg-service", "arg-tagged", "decorator-arg-service":
		return name.Draw(rt, "name")
	case "decorator-tag":
		if rapid.IntRange(0, 4).Draw(rt, "star") == 0 {
			return "*"
		}
		return name.Draw(rt, "name")
	case "import-path":
		return quote(imp.Draw(rt, "imp"))
	case "function-name", "getter", "call-method", "field-name", "meta-pkg", "meta-container-type", "meta-container-constructor":
		return ident.Draw(rt, "ident")
	case "function-go-func", "constructor", "decorator-method":
		return withImport(ident.Draw(rt, "fn"))
	case "type":
		p := ""
		if rapid.Bool().Draw(rt, "ptr") {
			p = "*"
		}
		return p + withImport(ident.Draw(rt, "type"))
	case "value", "arg-value":
		p := ""
		if rapid.Bool().Draw(rt, "amp") {
			p = "&"
		}
		if rapid.Bool().Draw(rt, "struct") {
			return p + withImport(ident.Draw(rt, "struct")) + "{}"
		}
		if rapid.Bool().Draw(rt, "path") {
			return p + `"` + imp.Draw(rt, "imp") + `".` + ident.Draw(rt, "v") + "." + ident.Draw(rt, "f") + "." + ident.Draw(rt, "g")
		}
		return p + withImport(ident.Draw(rt, "var"))
	}
	return ident.Draw(rt, "ident")
}

func editString(rt *rapid.T, s string) string {
	r := []rune(s)
	alphabet := []rune("aZ1._-/\"*&{} @!$%():,éx")
	n := rapid.IntRange(0, 2).Draw(rt, "edits")
	for i := 0; i < n; i++ {
		switch rapid.IntRange(0, 2).Draw(rt, "edit") {
		case 0: // insert
			at := rapid.IntRange(0, len(r)).Draw(rt, "at")
			c := rapid.SampledFrom(alphabet).Draw(rt, "ch")
			r = append(r[:at:at], append([]rune{c}, r[at:]...)...)
		case 1: // delete
			if len(r) > 0 {
				at := rapid.IntRange(0, len(r)-1).Draw(rt, "at")
				r = append(r[:at:at], r[at+1:]...)
			}
		default: // replace
			if len(r) > 0 {
				at := rapid.IntRange(0, len(r)-1).Draw(rt, "at")
				r[at] = rapid.SampledFrom(alphabet).Draw(rt, "ch")
			}
		}
	}
	return string(r)
}

// c11Stored evaluates a stored case (replay or regression file) of any of the three payload kinds of this check.
func c11Stored(t *testing.T, path string) {
	var rc c11Case
	loadRegress(t, path, &rc)
	if rc.Position != "" {
		c11Eval(t, rc)
		return
	}
	var raw c11Raw
	loadRegress(t, path, &raw)
	if raw.YAML != "" {
		c11EvalRaw(t, raw)
		return
	}
	var cc cfgCase
	loadRegress(t, path, &cc)
	verdictEvalAndClean(t, cc)
}

func TestC11(t *testing.T) {
	col := ev.Get()
	if p := os.Getenv("VERIF_REPLAY"); p != "" {
		c11Stored(t, p)
		col.Complete() // a replay run has no budget to complete
		return
	}
	for _, f := range regressFiles("C11") {
		c11Stored(t, f)
		col.Label("regress")
	}

	// (a) bounded exhaustive per position
	L := pick(3, 5)
	idx := 0
	for _, p := range c11Positions() {
		l := L
		if p.single {
			l = pick(2, 4)
		}
		strs := c11Strings(l)
		chunk := 400
		if p.single {
			chunk = 1
		}
		for i := 0; i < len(strs); i += chunk {
			idx++
			if !ev.Mine(idx) {
				continue
			}
			j := i + chunk
			if j > len(strs) {
				j = len(strs)
			}
			c11Eval(t, c11Case{Position: p.name, Candidates: strs[i:j]})
			if deadlinePassed() {
				return
			}
		}
	}
	col.Exhaustive(fmt.Sprintf("every string of length <= %d (the three single-valued meta attributes <= %d) over {a, Z, 1, ., -, _, /, \", *, &, {, }, space} in each of 22 grammar positions, 400 candidates per configuration on separate keys", L, pick(2, 4)))

	// (a2) every combination of the building blocks of a Go reference - optional & / *, import spelling (none, bare, with a
	// sub-path, quoted, "."), one to three selectors, optional {} - in the positions that take such references: longer than
	// the exhaustive strings, and exactly the places where two grammar alternatives meet
	{
		var forms []string
		for _, pre := range []string{"", "&", "*", "**", "&&"} {
			for _, imp := range []string{"", "a", "a/b", `"a/b"`, `"a"`, `"."`, `"a/b".`, "a/b.v2"} {
				for nsel := 1; nsel <= 3; nsel++ {
					for _, suf := range []string{"", "{}", "{}{}", "()"} {
						sel := strings.Repeat(".S", nsel)[1:]
						if imp != "" {
							sel = imp + "." + sel
						}
						forms = append(forms, pre+sel+suf)
					}
				}
			}
		}
		for _, pn := range []string{"value", "arg-value", "type", "constructor", "function-go-func", "decorator-method"} {
			for i := 0; i < len(forms); i += 200 {
				idx++
				if !ev.Mine(idx) {
					continue
				}
				j := i + 200
				if j > len(forms) {
					j = len(forms)
				}
				c11Eval(t, c11Case{Position: pn, Candidates: forms[i:j]})
			}
		}
		col.Exhaustive(fmt.Sprintf("%d recombined reference forms (prefix x import spelling x 1-3 selectors x suffix) in the six positions that take Go references", len(forms)))
	}

	// (a3) one string in every position of one configuration at once: the verdict of a position must not depend on the
	// same string having been accepted or refused in another position (or earlier in the same position)
	{
		strs := append(c11Strings(pick(2, 3)), "my-tag", "a.b", "a-b", "A_1", "Beta{}", "pkg.New", "*a.T", `"a/b".T`, "a/b.T", "&a.T{}", "GetX", "getX", "MustX", "XInContext")
		for i := 0; i < len(strs); i += 60 {
			idx++
			if !ev.Mine(idx) {
				continue
			}
			j := i + 60
			if j > len(strs) {
				j = len(strs)
			}
			c11Eval(t, c11Case{Position: "all-positions", Candidates: strs[i:j]})
		}
		col.Exhaustive(fmt.Sprintf("%d strings, each placed in all 19 multi-valued positions of one configuration at once", len(strs)))
	}

	// (c) node kinds, call and tag shapes, scope keywords, creation-method rules, todo exemption
	for i, r := range c11RawCases() {
		if ev.Mine(i) {
			c11EvalRaw(t, r)
		}
	}
	col.Exhaustive(fmt.Sprintf("%d hand-enumerated node-kind / shape / keyword / creation-rule / todo-exemption documents", len(c11RawCases())))

	// (b) valid forms from the documented grammar with up to two character edits
	setRapidChecks(pick(150, 1500))
	positions := c11Positions()
	rapid.Check(t, func(rt *rapid.T) {
		p := positions[rapid.IntRange(0, len(positions)-1).Draw(rt, "position")]
		n := 1
		if !p.single {
			n = rapid.IntRange(1, 30).Draw(rt, "n")
		}
		seen := map[string]bool{}
		var cands []string
		for i := 0; i < n; i++ {
			s := editString(rt, genValidForm(rt, p.name))
			if !seen[s] {
				seen[s] = true
				cands = append(cands, s)
			}
		}
		col.Label("edited-valid-forms")
		c11Eval(rt, c11Case{Position: p.name, Candidates: cands})
	})

	// (b2) valid forms with one ASCII letter replaced by a non-ASCII letter that looks like, folds to, or normalises to an
	// ASCII letter (Kelvin sign, long s, dotless i, Cyrillic and full-width look-alikes, ligatures, combining marks)
	setRapidChecks(pick(150, 1500))
	lookAlikes := []rune{'\u212a', '\u017f', '\u212a', '\u017f', '\u0131', '\u0130', '\u0430', '\u0410', '\uff21', '\uff41', '\u00df', '\u01c5', '\u00e9', '\u0301', '\u200b', '\u00a0', '\u0660', '\uff11',
		// ASCII characters next to the letters in the code table, and the rest of the punctuation
		'[', '\\', ']', '^', '`', '@', '{', '|', '}', '~', ':', ';', '<', '=', '>', '?', '!', '#', '$', '%', '\'', '(', ')', '+', ','}
	rapid.Check(t, func(rt *rapid.T) {
		p := positions[rapid.IntRange(0, len(positions)-1).Draw(rt, "position")]
		n := 1
		if !p.single {
			n = rapid.IntRange(1, 20).Draw(rt, "n")
		}
		seen := map[string]bool{}
		var cands []string
		for i := 0; i < n; i++ {
			r := []rune(genValidForm(rt, p.name))
			var at []int
			for j, c := range r {
				if c < 0x80 && (unicode.IsLetter(c) || unicode.IsDigit(c)) {
					at = append(at, j)
				}
			}
			if len(at) == 0 {
				continue
			}
			j := at[rapid.IntRange(0, len(at)-1).Draw(rt, "at")]
			la := rapid.SampledFrom(lookAlikes).Draw(rt, "lookalike")
			if rapid.Bool().Draw(rt, "insert") {
				r = append(r[:j+1:j+1], append([]rune{la}, r[j+1:]...)...)
			} else {
				r[j] = la
			}
			if s := string(r); !seen[s] {
				seen[s] = true
				cands = append(cands, s)
			}
		}
		if len(cands) == 0 {
			return
		}
		col.Label("non-ascii-look-alike-letters")
		c11Eval(rt, c11Case{Position: p.name, Candidates: cands})
	})

	// (d) several independent violations on different keys in one run, on generated configurations
	setRapidChecks(pick(150, 1500))
	opts := gen.All()
	opts.Unicode = false
	rapid.Check(t, func(rt *rapid.T) {
		c, _ := gen.Valid(rt, opts)
		k := rapid.IntRange(2, 5).Draw(rt, "k")
		var labels []string
		for i := 0; i < k; i++ {
			labels = append(labels, gen.InjectGrammarDefect(rt, &c, fmt.Sprintf("g%d", i)))
		}
		cc := cfgCase{C: c, Style: drawStyle(rt), Labels: labels}
		a, o := verdictEval(rt, cc)
		if o != nil {
			col.Case(ev.Hash(cc), true)
			col.Label(fmt.Sprintf("simultaneous-violations:%d", min(len(a.InputFacts), 6)))
			o.cleanup()
		}
	})
	if !deadlinePassed() {
		col.Complete()
	}
}
