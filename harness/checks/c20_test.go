//go:build verif

package checks

import (
	"fmt"
	"os"
	"path/filepath"
	"strings"
	"sync"
	"testing"

	"pgregory.net/rapid"

	"verifh/cfg"
	"verifh/ev"
	"verifh/fx"
	"verifh/gen"
	"verifh/ref"
)

var (
	raceUniOnce sync.Once
	raceUni     *fx.Universe
	raceUniErr  error
)

func raceUniverse() *fx.Universe {
	raceUniOnce.Do(func() {
		raceUni, raceUniErr = fx.NewUniverse(filepath.Join(ev.ScratchDir(), "fxrace"), ev.RepoDir())
		if raceUni != nil {
			raceUni.Race = true
			raceUniErr = raceUni.UsePrivateCache(filepath.Join(ev.ScratchDir(), "gocache-fxrace"), os.Getenv("VERIF_GOCACHE_BASE"))
		}
	})
	if raceUniErr != nil {
		panic("INFRA: race universe: " + raceUniErr.Error())
	}
	return raceUni
}

// noIdentity accepts every identity binding (structure-only comparison).
func structOnly(exp ref.Exp, got fx.Res) error {
	strip := func(v *ref.MV) {}
	_ = strip
	return matchRes(stripIDs(exp), got, newBij())
}

func stripIDs(e ref.Exp) ref.Exp {
	var walk func(v ref.MV) ref.MV
	walk = func(v ref.MV) ref.MV {
		if v.O != nil {
			o := *v.O
			o.ID = ""
			o.Args = append([]ref.MV(nil), o.Args...)
			for i := range o.Args {
				o.Args[i] = walk(o.Args[i])
			}
			if o.Fields != nil {
				f := map[string]ref.MV{}
				for k, x := range o.Fields {
					f[k] = walk(x)
				}
				o.Fields = f
			}
			o.Log = append([]ref.MCall(nil), o.Log...)
			for i := range o.Log {
				args := append([]ref.MV(nil), o.Log[i].Args...)
				for j := range args {
					args[j] = walk(args[j])
				}
				o.Log[i] = ref.MCall{M: o.Log[i].M, Args: args}
			}
			if o.Parent != nil {
				p := walk(*o.Parent)
				o.Parent = &p
			}
			v.O = &o
		}
		if v.L != nil {
			l := append([]ref.MV(nil), v.L...)
			for i := range l {
				l[i] = walk(l[i])
			}
			v.L = l
		}
		return v
	}
	if e.V != nil {
		v := walk(*e.V)
		e.V = &v
	}
	if e.L != nil {
		l := append([]ref.MV(nil), e.L...)
		for i := range l {
			l[i] = walk(l[i])
		}
		e.L = l
	}
	return e
}

type c20Member struct {
	C      cfg.Config   `json:"config"`
	Files  []cfg.Config `json:"files,omitempty"` // if set: C distributed over several input files (C stays the model's view)
	Style  cfg.Style    `json:"style"`
	Script fx.Script    `json:"script"`
	Labels []string     `json:"labels,omitempty"`
}

type c20Case struct {
	Members []c20Member `json:"members"`
}

// paramOnlyCounters returns the Count keys whose calls occur in parameters only.
func paramOnlyCounters(c cfg.Config) map[string]bool {
	inParams, elsewhere := map[string]bool{}, map[string]bool{}
	scan := func(s string, into map[string]bool) {
		for _, kv := range c.Meta.Functions {
			if strings.HasSuffix(kv.V, "Count") && strings.Contains(s, "%"+kv.K+"(") {
				into["fn:k"+kv.K] = true
			}
		}
	}
	for _, p := range c.Params {
		if p.Val.IsStr() {
			scan(p.Val.S, inParams)
		}
	}
	for _, s := range c.Services {
		for _, v := range s.AllArgs() {
			if v.IsStr() {
				scan(v.S, elsewhere)
			}
		}
	}
	for _, d := range c.Decorators {
		for _, v := range d.Args {
			if v.IsStr() {
				scan(v.S, elsewhere)
			}
		}
	}
	for k := range elsewhere {
		delete(inParams, k)
	}
	return inParams
}

func c20Eval(t tb, c c20Case) {
	col := ev.Get()
	u := raceUniverse()
	type item struct {
		m    c20Member
		cont *fx.Container
	}
	var items []*item
	var conts []*fx.Container
	for _, m := range c.Members {
		spec, err := singleFile(m.C, m.Style, cfgCase{}.Flags)
		if len(m.Files) > 1 {
			spec, _, err = memberSpec(c01Member{Files: m.Files, Style: m.Style})
		}
		if err != nil {
			col.Exclude("serialiser-self-check")
			continue
		}
		o := runInproc(spec)
		shared := false
		for _, op := range m.Script.Ops {
			if op.Op == "par" && len(op.Par) >= 2 {
				shared = true
			}
		}
		col.Case(ev.Hash(m), shared)
		for _, l := range m.Labels {
			col.Label(l)
		}
		if o.Res.Exit != 0 || !o.Exists {
			col.Exclude("rejected-by-tool")
			o.cleanup()
			continue
		}
		pkg, typ, ctor := expectedNames(m.C)
		it := &item{m: m, cont: &fx.Container{Name: u.NextName(), Pkg: pkg, Type: typ, Ctor: ctor, Source: o.Out, Script: m.Script}}
		col.Sample("concurrent-script", 2, map[string]any{"config": spec.Files[0].Content, "script": m.Script})
		o.cleanup()
		items = append(items, it)
		conts = append(conts, it.cont)
	}
	if len(conts) == 0 {
		return
	}
	if err := u.BuildBatch(conts, ""); err != nil {
		t.Fatalf("INFRA: %v", err)
	}
	dropped := 0
	for _, it := range items {
		one := c20Case{Members: []c20Member{it.m}}
		cn := it.cont
		if cn.Crashed != "" {
			if strings.Contains(cn.Crashed, "DATA RACE") {
				violation(t, "data-race", "race detector report: "+oneLine(cn.Crashed), one)
			} else if strings.Contains(cn.Crashed, "fatal error") || strings.Contains(cn.Crashed, "panic") {
				violation(t, "crash", "probe crashed under concurrent use: "+oneLine(cn.Crashed), one)
			} else {
				violation(t, "crash", "probe died: "+oneLine(cn.Crashed), one)
			}
			continue
		}
		if cn.CompileErr != "" || cn.Out == nil || !cn.Out.Alive {
			dropped++
			col.Exclude("not-compiling-or-not-alive")
			continue
		}
		if cn.Out.Hang {
			violation(t, "deadlock", "concurrent script did not terminate", one)
			continue
		}
		// sequential model: values (structure only), scopes, counters
		a := ref.Analyse(it.m.C)
		scopes := a.EffectiveScopes()
		d := ref.NewDI(it.m.C, it.m.Script.Env)
		sharedSerial := map[string]int64{}
		ctxSerial := map[string]map[string]int64{} // service -> ctx -> serial
		fresh := map[string]map[int64]bool{}       // service -> serials returned by calls that must not share (non_shared; contextual without context)
		ok := true
		overridden := false
		fail := func(key, what string) {
			if ok {
				ok = false
				violation(t, key, what, one)
			}
		}
		var visit func(op fx.Op, r fx.Res)
		visit = func(op fx.Op, r fx.Res) {
			switch op.Op {
			case "new":
				d = ref.NewDI(it.m.C, it.m.Script.Env)
				overridden = false
				sharedSerial = map[string]int64{}
				ctxSerial = map[string]map[string]int64{}
				fresh = map[string]map[int64]bool{}
			case "par":
				for g := range op.Par {
					if g >= len(r.Par) || len(r.Par[g]) != len(op.Par[g]) {
						fail("probe-truncated", "missing goroutine results")
						return
					}
					for k := range op.Par[g] {
						visit(op.Par[g][k], r.Par[g][k])
					}
				}
			case "overrideParam", "overrideService":
				// sequential prelude (before the goroutines are released): a placeholder gets a real definition
				d.Exec(modelOp(op))
				overridden = true
			case "get", "param", "tagged", "getter", "must":
				mop, svc := modelOp(op), op.ID
				if op.Op == "getter" || op.Op == "must" {
					// a generated accessor is Get / GetInContext on the service named in Tag
					if r.Missing {
						return
					}
					svc = op.Tag
					mop = ref.ProbeOp{Op: "get", ID: svc, Ctx: op.Ctx}
				}
				exp := d.Exec(mop)
				if exp.Skip {
					return
				}
				if op.Op == "must" && exp.Err != "" {
					exp = ref.Exp{Panic: true}
				}
				if err := structOnly(exp, r); err != nil {
					fail("value:"+classifyMismatch(err.Error()), "concurrent result differs from the sequential model: "+err.Error())
					return
				}
				// package-level values (value: pkg.GlobalObj) are one Go object whatever the scope says:
				// identity invariants only concern objects the container constructs
				constructed := exp.V != nil && exp.V.O != nil && exp.V.O.ID != "" && !strings.HasPrefix(exp.V.O.ID, "global:")
				if op.Op != "param" && op.Op != "tagged" && constructed && r.V != nil && r.V.O != nil && r.V.O.Serial != 0 && r.Err == "" {
					serial := r.V.O.Serial
					scope := scopes[svc]
					if overridden {
						// a placeholder supplied at run time changes the scope of its dependants without a scope of their own
						scope = d.EffectiveScope(svc)
					}
					switch scope {
					case "shared":
						if s, seen := sharedSerial[svc]; seen && s != serial {
							fail("shared-constructed-twice", fmt.Sprintf("shared service %q was observed as two instances (serials %d and %d)", svc, s, serial))
						}
						sharedSerial[svc] = serial
					case "non_shared":
						// afresh for every Get
						if fresh[svc] == nil {
							fresh[svc] = map[int64]bool{}
						}
						if fresh[svc][serial] {
							fail("non-shared-returned-twice", fmt.Sprintf("non_shared service %q: instance %d was returned by two calls", svc, serial))
						}
						fresh[svc][serial] = true
					case "contextual":
						if ctxSerial[svc] == nil {
							ctxSerial[svc] = map[string]int64{}
						}
						if op.Ctx == "" {
							// a call without an attached context is a context of its own
							if fresh[svc] == nil {
								fresh[svc] = map[int64]bool{}
							}
							if fresh[svc][serial] {
								fail("contextual-shared-between-call-trees", fmt.Sprintf("contextual service %q: instance %d was returned by two calls that have no context in common", svc, serial))
							}
							for other, s := range ctxSerial[svc] {
								if s == serial {
									fail("contextual-shared-between-contexts", fmt.Sprintf("contextual service %q: context %s and a call without context share instance %d", svc, other, s))
								}
							}
							fresh[svc][serial] = true
						} else {
							if s, seen := ctxSerial[svc][op.Ctx]; seen && s != serial {
								fail("contextual-twice-in-one-context", fmt.Sprintf("contextual service %q has two instances in context %s", svc, op.Ctx))
							}
							ctxSerial[svc][op.Ctx] = serial
							for other, s := range ctxSerial[svc] {
								if other != op.Ctx && s == serial {
									fail("contextual-shared-between-contexts", fmt.Sprintf("contextual service %q: contexts %s and %s share instance %d", svc, other, op.Ctx, s))
								}
							}
							if fresh[svc][serial] {
								fail("contextual-shared-between-contexts", fmt.Sprintf("contextual service %q: context %s and a call without context share instance %d", svc, op.Ctx, serial))
							}
						}
					}
				}
			case "counters":
				for k := range paramOnlyCounters(it.m.C) {
					if d.Counters[k] != r.Counters[k] {
						fail("parameter-evaluated-more-than-once", fmt.Sprintf("invocation counter %s: sequential model %d, observed %d", k, d.Counters[k], r.Counters[k]))
					}
				}
			}
		}
		res := cn.Out.Res
		if len(res) != len(it.m.Script.Ops) {
			fail("probe-truncated", "probe returned fewer results than operations")
			continue
		}
		for i, op := range it.m.Script.Ops {
			visit(op, res[i])
		}
		if ok {
			col.Label("race-free-and-consistent")
		}
	}
	if dropped*2 > len(items) && len(items) >= 4 {
		t.Fatalf("INFRA: more than half of the containers of a batch did not compile (%d of %d); inconclusive on this tree", dropped, len(items))
	}
}

// drawConcurrentScript: R rounds; each round a fresh container and G goroutines
// released together, each running a drawn sequence of reads.
func drawConcurrentScript(rt *rapid.T, c cfg.Config) fx.Script {
	var svcs, params, tags []string
	var todoSvcs, todoParams []string
	var getters [][2]string
	seen := map[string]bool{}
	for _, s := range c.Services {
		svcs = append(svcs, s.Name)
		if s.IsTodo() {
			todoSvcs = append(todoSvcs, s.Name)
		}
		if s.Getter != nil && !s.IsTodo() && exportedName(*s.Getter) {
			getters = append(getters, [2]string{*s.Getter, s.Name})
		}
		for _, t := range s.Tags {
			if !seen[t.Name] {
				seen[t.Name] = true
				tags = append(tags, t.Name)
			}
		}
	}
	for _, p := range c.Params {
		params = append(params, p.Name)
		if p.Val.IsStr() && strings.HasPrefix(p.Val.S, "%todo(") {
			todoParams = append(todoParams, p.Name)
		}
	}
	rounds := rapid.IntRange(1, 3).Draw(rt, "rounds")
	sc := fx.Script{Procs: rapid.SampledFrom([]int{2, 16}).Draw(rt, "procs"), Timeout: 120, Env: scriptAll(c).Env}
	for r := 0; r < rounds; r++ {
		if r > 0 {
			sc.Ops = append(sc.Ops, fx.Op{Op: "new"})
		}
		// placeholders are supplied before the goroutines are released (the documented workflow: build, override, use);
		// each round draws its own subset, a placeholder service as a default-scope or as a contextual definition
		for _, p := range todoParams {
			if rapid.IntRange(0, 3).Draw(rt, "oparam") > 0 {
				lit := rapid.SampledFrom([]fx.Lit{{K: "int", I: 41}, {K: "str", S: "over"}, {K: "bool", B: true}, {K: "float", F: 2.5}}).Draw(rt, "lit")
				sc.Ops = append(sc.Ops, fx.Op{Op: "overrideParam", ID: p, Val: &lit})
			}
		}
		for _, s := range todoSvcs {
			if rapid.IntRange(0, 3).Draw(rt, "osvc") > 0 {
				sc.Ops = append(sc.Ops, fx.Op{Op: "overrideService", ID: s, Val: &fx.Lit{K: rapid.SampledFrom([]string{"str", "ctx"}).Draw(rt, "oscope"), S: rapid.SampledFrom([]string{"m1", "m2"}).Draw(rt, "marker")}})
			}
		}
		g := rapid.SampledFrom([]int{4, 16, 64}).Draw(rt, "goroutines")
		par := fx.Op{Op: "par"}
		ny := rapid.IntRange(0, 3).Draw(rt, "yields")
		for i := 0; i < ny; i++ {
			par.Yield = append(par.Yield, rapid.IntRange(0, 6).Draw(rt, "yield"))
		}
		// a few distinct goroutine programmes, assigned to goroutines in a drawn order
		np := rapid.IntRange(1, 4).Draw(rt, "programmes")
		var progs [][]fx.Op
		for p := 0; p < np; p++ {
			n := rapid.IntRange(1, 5).Draw(rt, "plen")
			var ops []fx.Op
			for i := 0; i < n; i++ {
				k := rapid.IntRange(0, 5).Draw(rt, "kind")
				ctx := rapid.SampledFrom([]string{"", "A", "B"}).Draw(rt, "ctx")
				switch {
				case k <= 2 && len(svcs) > 0:
					ops = append(ops, fx.Op{Op: "get", ID: rapid.SampledFrom(svcs).Draw(rt, "svc"), Ctx: ctx})
				case k == 3 && len(params) > 0:
					ops = append(ops, fx.Op{Op: "param", ID: rapid.SampledFrom(params).Draw(rt, "param")})
				case k == 4 && len(tags) > 0:
					ops = append(ops, fx.Op{Op: "tagged", ID: rapid.SampledFrom(tags).Draw(rt, "tag"), Ctx: ctx})
				case k == 5 && len(getters) > 0:
					g := rapid.SampledFrom(getters).Draw(rt, "getter")
					if rapid.Bool().Draw(rt, "must") {
						ops = append(ops, fx.Op{Op: "must", ID: "Must" + g[0], Tag: g[1], Ctx: ctx})
					} else {
						ops = append(ops, fx.Op{Op: "getter", ID: g[0], Tag: g[1], Ctx: ctx})
					}
				default:
					if len(svcs) > 0 {
						ops = append(ops, fx.Op{Op: "get", ID: svcs[0], Ctx: ctx})
					}
				}
			}
			progs = append(progs, ops)
		}
		for i := 0; i < g; i++ {
			par.Par = append(par.Par, progs[rapid.IntRange(0, np-1).Draw(rt, "assign")])
		}
		sc.Ops = append(sc.Ops, par, fx.Op{Op: "counters"})
	}
	return sc
}

func TestC20(t *testing.T) {
	col := ev.Get()
	col.Note("schedules are sampled (repeated rounds, randomised goroutine programmes, GOMAXPROCS 2 and 16, Gosched sprinkled at drawn points) under the race detector; they are not enumerated")
	// a stored case names a configuration and a concurrent script, not a schedule: it is run several times
	again := func(c c20Case, n int) c20Case {
		var out c20Case
		for i := 0; i < n; i++ {
			out.Members = append(out.Members, c.Members...)
		}
		return out
	}
	var rc c20Case
	if replayPayload(t, &rc) {
		c20Eval(t, again(rc, 12))
		return
	}
	for _, f := range regressFiles("C20") {
		var c c20Case
		loadRegress(t, f, &c)
		c20Eval(t, again(c, 6))
		col.Label("regress")
	}
	// hand-built: services that are contextual only through the dependency of a decorator on one of their tags, with the
	// decorators declared in every order; many goroutines in three kinds of context
	if ev.Mine(0) {
		decs := []cfg.Decorator{
			{Tag: "t1", Fn: "fx/lib.Decorate", Args: []cfg.Val{cfg.Str("@ctx")}},
			{Tag: "t2", Fn: "fx/lib.Decorate"},
			{Tag: "t3", Fn: "fx/lib.Decorate", Args: []cfg.Val{cfg.Str("x")}},
		}
		var c c20Case
		for _, order := range [][]int{{0, 1}, {1, 0}, {0, 1, 2}, {2, 1, 0}, {0, 2, 1}} {
			conf := cfg.Config{Meta: cfg.Meta{Pkg: sp("app")}, Services: []cfg.Service{
				{Name: "ctx", Ctor: sp("fx/lib.NewObj"), Scope: sp("contextual")},
				{Name: "a", Ctor: sp("fx/lib.NewObj"), Tags: []cfg.Tag{{Name: "t1"}}, Getter: sp("GetA"), Must: bp(true)},
				{Name: "b", Ctor: sp("fx/lib.NewObj"), Tags: []cfg.Tag{{Name: "t2"}}},
				{Name: "ab", Ctor: sp("fx/lib.NewObj"), Tags: []cfg.Tag{{Name: "t2"}, {Name: "t1"}, {Name: "t3"}}},
				{Name: "user", Ctor: sp("fx/lib.NewObj"), Args: []cfg.Val{cfg.Str("@a"), cfg.Str("@b")}, Scope: sp("non_shared")},
			}}
			for _, i := range order {
				conf.Decorators = append(conf.Decorators, decs[i])
			}
			par := fx.Op{Op: "par", Yield: []int{1, 3}}
			for g := 0; g < 24; g++ {
				ctx := []string{"A", "B", ""}[g%3]
				par.Par = append(par.Par, []fx.Op{{Op: "get", ID: "a", Ctx: ctx}, {Op: "get", ID: "ab", Ctx: ctx}, {Op: "getter", ID: "GetA", Tag: "a", Ctx: ctx}, {Op: "get", ID: "user", Ctx: ctx}, {Op: "get", ID: "ctx", Ctx: ctx}})
			}
			c.Members = append(c.Members, c20Member{C: conf, Script: fx.Script{Procs: 16, Timeout: 120, Ops: []fx.Op{par, {Op: "counters"}}}, Labels: []string{"hand-built:contextual-through-a-decorator", fmt.Sprintf("decorators:%d", len(order))}})
		}
		c20Eval(t, c)
	}
	// hand-built: a counted parameter function reached through chains of parameters that are nothing but a reference to
	// another parameter, through a concatenation and through service arguments, all requested at once: however a parameter
	// is reached, its expression is evaluated once per container
	if ev.Mine(1) {
		var c c20Case
		for v := 0; v < 3; v++ {
			conf := cfg.Config{Meta: cfg.Meta{Pkg: sp("app"), Functions: []cfg.KV{{K: "cnt", V: "fx/lib.Count"}}},
				Params: []cfg.Param{
					{Name: "base", Val: cfg.Str(`%cnt("kcnt", 7)%`)},
					{Name: "alias", Val: cfg.Str("%base%")},
					{Name: "alias2", Val: cfg.Str("%alias%")},
					{Name: "concat", Val: cfg.Str("v=%base%")},
					{Name: "both", Val: cfg.Str("%alias2%-%base%")},
				},
				Services: []cfg.Service{
					{Name: "a", Ctor: sp("fx/lib.NewObj"), Args: []cfg.Val{cfg.Str("%alias%"), cfg.Str("%base%")}},
					{Name: "b", Ctor: sp("fx/lib.NewObj"), Args: []cfg.Val{cfg.Str("%alias2%")}, Scope: sp("non_shared")},
				}}
			names := [][]string{{"alias", "base", "alias2", "concat", "both"}, {"alias2", "alias", "base"}, {"both", "alias"}}[v]
			var sc fx.Script
			sc.Procs, sc.Timeout = 16, 120
			for round := 0; round < 3; round++ {
				if round > 0 {
					sc.Ops = append(sc.Ops, fx.Op{Op: "new"})
				}
				par := fx.Op{Op: "par", Yield: []int{0, 2, 5}}
				for g := 0; g < 32; g++ {
					var ops []fx.Op
					for k := range names {
						ops = append(ops, fx.Op{Op: "param", ID: names[(k+g)%len(names)]})
					}
					ops = append(ops, fx.Op{Op: "get", ID: []string{"a", "b"}[g%2], Ctx: []string{"", "A"}[g%4/2]})
					par.Par = append(par.Par, ops)
				}
				sc.Ops = append(sc.Ops, par, fx.Op{Op: "counters"})
			}
			c.Members = append(c.Members, c20Member{C: conf, Script: sc, Labels: []string{"hand-built:counted-parameter-behind-reference-only-parameters"}})
		}
		c20Eval(t, c)
	}
	batch := pick(8, 12)
	setRapidChecks(pick(4, 30))
	opts := behaviouralOpts()
	opts.ScopeHeavy = true
	opts.ValueKinds = false
	opts.Todo = false
	rapid.Check(t, func(rt *rapid.T) {
		if deadlinePassed() {
			rt.Skip("budget used up")
		}
		var c c20Case
		for i := 0; i < batch; i++ {
			o := opts
			o.Todo = i%3 == 2 // every third configuration may hold placeholders, supplied before the concurrent phase
			conf, labels := gen.Valid(rt, o)
			m := c20Member{C: conf, Style: drawStyle(rt), Script: drawConcurrentScript(rt, conf), Labels: labels.List()}
			for _, op := range m.Script.Ops {
				if op.Op == "overrideService" || op.Op == "overrideParam" {
					m.Labels = append(m.Labels, "prelude:"+op.Op)
					if op.Val != nil && op.Val.K == "ctx" {
						m.Labels = append(m.Labels, "prelude:placeholder-supplied-as-contextual")
					}
				}
			}
			if n := rapid.IntRange(1, 3).Draw(rt, "nfiles"); n > 1 {
				m.Files = gen.Split(rt, conf, n)
				m.Labels = append(m.Labels, fmt.Sprintf("files:%d", len(m.Files)))
			}
			c.Members = append(c.Members, m)
		}
		c20Eval(rt, c)
	})
	if !deadlinePassed() {
		col.Complete()
	}
}
