//go:build verif

package checks

import (
	"fmt"
	"regexp"
	"sort"
	"strconv"
	"strings"

	"verifh/ref"
	"verifh/sut"
)

// Verdict is the comparable form of an expected or observed outcome of a run.
type Verdict struct {
	Stage  string          // read, input, meta, params, services, decorators, output, generate, accept, panic
	Facts  map[string]bool // "class|A|B"
	Cycles []string        // observed cycle lines (output stage)
	Other  []string        // observed diagnostics the parser could not classify
}

func (v Verdict) factList() []string {
	var l []string
	for f := range v.Facts {
		l = append(l, f)
	}
	sort.Strings(l)
	return l
}

var reLeadQuoted = regexp.MustCompile(`^"(?:[^"\\]|\\.)*": (.*)$`)
var reAnyQuoted = regexp.MustCompile(`"(?:[^"\\]|\\.)*"`)

func lastQuoted(s string) string {
	m := reAnyQuoted.FindAllString(s, -1)
	if len(m) == 0 {
		return ""
	}
	u, err := strconv.Unquote(m[len(m)-1])
	if err != nil {
		return m[len(m)-1]
	}
	return u
}

func serviceAttr(text string) string {
	switch {
	case text == "invalid name":
		return "name"
	case text == "missing constructor or value or type", text == "cannot define constructor and value together",
		text == "arguments are not empty, but constructor is missing":
		return "creation"
	}
	for _, a := range []string{"getter", "type", "value", "constructor", "arguments", "calls", "fields", "tags"} {
		if strings.HasPrefix(text, a+":") {
			return a
		}
	}
	return "?"
}

// observeVerdict reduces a run to a Verdict.
func observeVerdict(o Outcome) Verdict {
	v := Verdict{Facts: map[string]bool{}}
	if o.Res.Panic != "" {
		v.Stage = "panic"
		return v
	}
	if o.Res.Exit == 0 {
		v.Stage = "accept"
		return v
	}
	top, _ := o.Report.FailingTop()
	classes := map[string]bool{}
	for _, f := range o.Facts {
		classes[f.Class] = true
		switch f.Class {
		case "version":
			v.Facts["input|version|"] = true
		case "meta":
			t := f.B
			switch {
			case strings.HasPrefix(t, "pkg:"):
				v.Facts["input|meta|pkg"] = true
			case strings.HasPrefix(t, "container_type:"):
				v.Facts["input|meta|container_type"] = true
			case strings.HasPrefix(t, "container_constructor:"):
				v.Facts["input|meta|container_constructor"] = true
			case strings.HasPrefix(t, "imports: invalid import"):
				v.Facts["input|meta|imports:import:"+lastQuoted(t)] = true
			case strings.HasPrefix(t, "imports: invalid alias"):
				v.Facts["input|meta|imports:alias:"+lastQuoted(t)] = true
			case strings.HasPrefix(t, "functions: invalid function"):
				v.Facts["input|meta|functions:function:"+lastQuoted(t)] = true
			case strings.HasPrefix(t, "functions: invalid go function"):
				v.Facts["input|meta|functions:gofunction:"+lastQuoted(t)] = true
			default:
				v.Other = append(v.Other, f.String())
			}
		case "param":
			attr := "?"
			if f.B == "invalid name" {
				attr = "name"
			} else if strings.HasPrefix(f.B, "unsupported type") {
				attr = "type"
			}
			v.Facts["input|param:"+f.A+"|"+attr] = true
		case "service":
			v.Facts["input|service:"+f.A+"|"+serviceAttr(f.B)] = true
		case "decorator":
			attr := "?"
			if m := reLeadQuoted.FindStringSubmatch(f.B); m != nil {
				for _, a := range []string{"tag", "method", "arguments"} {
					if strings.HasPrefix(m[1], a+":") {
						attr = a
					}
				}
			}
			v.Facts["input|decorator:"+f.A+"|"+attr] = true
		case "compile-param":
			v.Facts["token|"+f.A+"|"] = true
		case "compile-service":
			v.Facts["arg|"+f.A+"|"] = true
		case "compile-decorator":
			v.Facts["arg|"+f.A+"|"] = true
		case "missing-param", "missing-service", "scope":
			v.Facts[f.Class+"|"+f.A+"|"+f.B] = true
		case "cycle":
			v.Cycles = append(v.Cycles, f.A)
		default:
			v.Other = append(v.Other, f.String())
		}
	}
	switch top.Name {
	case "Read config":
		v.Stage = "read"
	case "Compile":
		switch {
		case classes["version"] || classes["meta"] || classes["param"] || classes["service"] || classes["decorator"]:
			v.Stage = "input"
		case classes["compile-meta"]:
			v.Stage = "meta"
		case classes["compile-param"]:
			v.Stage = "params"
		case classes["compile-service"]:
			v.Stage = "services"
		case classes["compile-decorator"]:
			v.Stage = "decorators"
		default:
			v.Stage = "compile?"
		}
	case "Validate output":
		v.Stage = "output"
	case "Generate code":
		v.Stage = "generate"
	default:
		v.Stage = "unknown:" + top.Name
	}
	return v
}

// expectVerdict derives the expected Verdict from the reference analysis.
func expectVerdict(a *ref.Analysis, flags sut.Flags) Verdict {
	v := Verdict{Facts: map[string]bool{}}
	v.Stage = a.Stage(flags.IgnoreMissingParams, flags.IgnoreMissingServices)
	add := func(fs []ref.Fact) {
		for _, f := range fs {
			v.Facts[f.String()] = true
		}
	}
	switch v.Stage {
	case "input":
		add(a.InputFacts)
	case "params":
		add(a.ParamFacts)
	case "services":
		add(a.SvcFacts)
	case "decorators":
		add(a.DecFacts)
	case "output":
		add(a.ScopeFacts)
		if !flags.IgnoreMissingParams {
			add(a.MissingP)
		}
		if !flags.IgnoreMissingServices {
			add(a.MissingS)
		}
	}
	return v
}

// compareFacts compares two fact sets; "?" attributes on the observed side match any
// attribute of the same key (an unknown wording is not a violation, a missing key is).
func compareFacts(exp, obs Verdict) (missing, spurious []string) {
	keyOf := func(f string) string {
		p := strings.SplitN(f, "|", 3)
		return p[0] + "|" + p[1]
	}
	obsKeys := map[string]bool{}
	obsWild := map[string]bool{}
	for f := range obs.Facts {
		obsKeys[keyOf(f)] = true
		if strings.HasSuffix(f, "|?") {
			obsWild[keyOf(f)] = true
		}
	}
	expKeys := map[string]bool{}
	for f := range exp.Facts {
		expKeys[keyOf(f)] = true
		if !obs.Facts[f] && !obsWild[keyOf(f)] {
			missing = append(missing, f)
		}
	}
	for f := range obs.Facts {
		if strings.HasSuffix(f, "|?") {
			if !expKeys[keyOf(f)] {
				spurious = append(spurious, f)
			}
			continue
		}
		if !exp.Facts[f] {
			spurious = append(spurious, f)
		}
	}
	sort.Strings(missing)
	sort.Strings(spurious)
	return
}

// checkCycles validates the observed cycle report against the reference graph:
// every line is a closed walk along edges of the reference relation, and the union
// of nodes on reported cycles equals the set of nodes lying on some cycle.
func checkCycles(a *ref.Analysis, lines []string) error {
	g := a.Graph
	on, _ := g.OnCycle()
	seen := map[string]bool{}
	for _, ln := range lines {
		nodes := strings.Split(ln, " -> ")
		if len(nodes) < 2 {
			return fmt.Errorf("cycle line %q is not a path", ln)
		}
		if nodes[0] != nodes[len(nodes)-1] {
			return fmt.Errorf("cycle line %q is not closed", ln)
		}
		for i := 0; i+1 < len(nodes); i++ {
			if !g.HasEdge(nodes[i], nodes[i+1]) {
				return fmt.Errorf("cycle line %q uses %q -> %q, which is not a dependency of the configuration", ln, nodes[i], nodes[i+1])
			}
			seen[nodes[i]] = true
		}
	}
	for n := range on {
		if !seen[n] {
			return fmt.Errorf("%q lies on a dependency cycle but no reported cycle goes through it (reported: %v)", n, lines)
		}
	}
	for n := range seen {
		if !on[n] {
			return fmt.Errorf("%q is reported on a cycle but lies on none", n)
		}
	}
	return nil
}

// compareVerdict is the full comparison used by the verdict-level checks. It returns
// "" when expectation and observation agree.
func compareVerdict(a *ref.Analysis, flags sut.Flags, o Outcome) (key, what string) {
	exp := expectVerdict(a, flags)
	obs := observeVerdict(o)
	if obs.Stage == "panic" {
		return "panic", "tool panicked: " + oneLine(o.Res.Panic)
	}
	if exp.Stage != obs.Stage {
		return "stage:" + exp.Stage + "-expected-" + obs.Stage + "-observed",
			fmt.Sprintf("expected stage %s with %v, observed stage %s with %v %v %v", exp.Stage, exp.factList(), obs.Stage, obs.factList(), obs.Cycles, obs.Other)
	}
	if len(obs.Other) > 0 && exp.Stage != "accept" {
		return "unclassified-diagnostic", fmt.Sprintf("unexpected diagnostics %v", obs.Other)
	}
	missing, spurious := compareFacts(exp, obs)
	if len(missing) > 0 {
		return "missing-diagnostic:" + strings.SplitN(missing[0], "|", 2)[0], fmt.Sprintf("not reported: %v (reported: %v)", missing, obs.factList())
	}
	if len(spurious) > 0 {
		return "spurious-diagnostic:" + strings.SplitN(spurious[0], "|", 2)[0], fmt.Sprintf("reported without cause: %v (expected: %v)", spurious, exp.factList())
	}
	if exp.Stage == "output" {
		if a.Cyclic != (len(obs.Cycles) > 0) {
			return "cycle-verdict", fmt.Sprintf("cyclic=%v but reported cycles: %v", a.Cyclic, obs.Cycles)
		}
		if a.Cyclic {
			if err := checkCycles(a, obs.Cycles); err != nil {
				return "cycle-report", err.Error()
			}
		}
	}
	return "", ""
}
