//go:build verif

package checks

import (
	"fmt"
	"os"
	"testing"

	"pgregory.net/rapid"

	"verifh/cfg"
	"verifh/ev"
	"verifh/fx"
	"verifh/gen"
	"verifh/ref"
)

var scopeChoices = []string{"", "shared", "contextual", "non_shared"}

// acyclicEdgeSets enumerates the edge subsets of the complete digraph on n nodes
// (without self-loops) that contain no directed cycle.
func acyclicEdgeSets(n int) [][][2]int {
	var all [][2]int
	for i := 0; i < n; i++ {
		for j := 0; j < n; j++ {
			if i != j {
				all = append(all, [2]int{i, j})
			}
		}
	}
	var out [][][2]int
	for m := 0; m < 1<<len(all); m++ {
		var es [][2]int
		g := ref.NewGraph()
		for b, e := range all {
			if m&(1<<b) != 0 {
				es = append(es, e)
				g.Edge(fmt.Sprint(e[0]), fmt.Sprint(e[1]))
			}
		}
		if on, _ := g.OnCycle(); len(on) == 0 {
			out = append(out, es)
		}
	}
	return out
}

// history draws a sequence of Get / GetInContext / GetTaggedBy operations.
func drawHistory(rt *rapid.T, c cfg.Config, maxLen int) []fx.Op {
	var names, tags []string
	var getters [][2]string // getter, service
	seen := map[string]bool{}
	for _, s := range c.Services {
		names = append(names, s.Name)
		if s.Getter != nil && !s.IsTodo() && exportedName(*s.Getter) {
			getters = append(getters, [2]string{*s.Getter, s.Name})
		}
		for _, t := range s.Tags {
			if !seen[t.Name] {
				seen[t.Name] = true
				tags = append(tags, t.Name)
			}
		}
	}
	n := rapid.IntRange(2, maxLen).Draw(rt, "hlen")
	var ops []fx.Op
	for i := 0; i < n; i++ {
		ctx := rapid.SampledFrom([]string{"", "", "A", "A", "B"}).Draw(rt, "ctx")
		if len(tags) > 0 && rapid.IntRange(0, 4).Draw(rt, "tagged?") == 0 {
			ops = append(ops, fx.Op{Op: "tagged", ID: rapid.SampledFrom(tags).Draw(rt, "tag"), Ctx: ctx})
			continue
		}
		if len(getters) > 0 && rapid.IntRange(0, 3).Draw(rt, "getter?") == 0 {
			// the generated accessors are entry points too: G / GInContext / MustG / MustGInContext
			g := rapid.SampledFrom(getters).Draw(rt, "getter")
			if rapid.Bool().Draw(rt, "must") {
				ops = append(ops, fx.Op{Op: "must", ID: "Must" + g[0], Tag: g[1], Ctx: ctx})
			} else {
				ops = append(ops, fx.Op{Op: "getter", ID: g[0], Tag: g[1], Ctx: ctx})
			}
			continue
		}
		ops = append(ops, fx.Op{Op: "get", ID: rapid.SampledFrom(names).Draw(rt, "svc"), Ctx: ctx})
	}
	return ops
}

func c05NonTrivial(m behMember, merged cfg.Config) bool {
	scoped := map[string]bool{}
	for _, s := range merged.Services {
		if s.Scope != nil && (*s.Scope == "contextual" || *s.Scope == "non_shared") {
			scoped[s.Name] = true
		}
	}
	if len(scoped) == 0 || len(m.Script.Ops) < 2 {
		return false
	}
	for _, s := range merged.Services {
		for _, a := range s.AllArgs() {
			if a.IsStr() {
				if k, n, ok := ref.ClassifyArg(a.S); ok && k == ref.ArgService && scoped[n] {
					return true
				}
			}
		}
	}
	return false
}

func c05Check(t tb, bc behContext) {
	if checkAgainstModel(t, bc, "") {
		ev.Get().Label("history-matched-model")
		ev.Get().Label(fmt.Sprintf("history-length:%d", len(bc.M.Script.Ops)))
	}
}

func TestC05(t *testing.T) {
	col := ev.Get()
	stored := func(path string) {
		// a stored case is either a verdict case (single member, empty script) or a behaviour case
		if payloadHas(t, path, "config") { // a verdict case stored as the configuration itself
			var cc cfgCase
			loadRegress(t, path, &cc)
			verdictEvalAndClean(t, cc)
			return
		}
		var rc behCase
		loadRegress(t, path, &rc)
		if len(rc.Members) == 1 && len(rc.Members[0].Script.Ops) == 0 && len(rc.Members[0].Files) == 1 {
			verdictEvalAndClean(t, cfgCase{C: rc.Members[0].Files[0], Style: rc.Members[0].Style})
			return
		}
		behBatch(t, rc, c05NonTrivial, c05Check, nil)
	}
	if p := os.Getenv("VERIF_REPLAY"); p != "" {
		stored(p)
		col.Complete()
		return
	}
	for _, f := range regressFiles("C05") {
		stored(f)
		col.Label("regress")
	}

	// (a) verdict: exhaustive over acyclic graphs x edge kind x scope assignment
	verdict := func(t tb, g gen.GraphSpec, tag string) {
		c := g.Config()
		a := ref.Analyse(c)
		cc := cfgCase{C: c, Labels: []string{tag}}
		cc.Flags.IgnoreMissingServices = g.Dangling // undefined references are there on purpose: the scope rule must not care
		spec, err := singleFile(c, cfg.Style{}, cc.Flags)
		if err != nil {
			col.Exclude("serialiser-self-check")
			return
		}
		o := runInproc(spec)
		defer o.cleanup()
		if key, what := compareVerdict(a, cc.Flags, o); key != "" {
			violation(t, "verdict:"+key, what+" :: "+oneLine(spec.Files[0].Content), behCase{Members: []behMember{{Files: []cfg.Config{c}}}})
			return
		}
		hasScoped := false
		for _, s := range g.Scopes {
			hasScoped = hasScoped || s == "contextual" || s == "shared"
		}
		col.Case(ev.Hash(g), hasScoped && len(g.SvcRefs)+len(g.SvcTags) > 0)
		col.Label(tag)
		if len(a.ScopeFacts) > 0 {
			col.Label("verdict:scope-conflict")
			col.Sample("scope-conflict", 2, map[string]any{"graph": g, "reported": o.Report.Errors})
		} else {
			col.Label("verdict:accepted")
		}
	}
	idx := 0
	for n := 2; n <= 3; n++ {
		sets := acyclicEdgeSets(n)
		nsc := 1
		for i := 0; i < n; i++ {
			nsc *= 4
		}
		for _, es := range sets {
			for kind := 0; kind < 5; kind++ {
				if len(es) == 0 && kind > 0 {
					continue
				}
				for sc := 0; sc < nsc; sc++ {
					idx++
					if !ev.Mine(idx) {
						continue
					}
					scopes := make([]string, n)
					x := sc
					for i := 0; i < n; i++ {
						scopes[i] = scopeChoices[x%4]
						x /= 4
					}
					var edges [][3]int
					for _, e := range es {
						edges = append(edges, [3]int{e[0], e[1], kind})
					}
					g := gen.EdgeGraph(n, edges, scopes)
					verdict(t, g, fmt.Sprintf("exh:n=%d", n))
					// the same structure with look-alikes that are no dependencies (parameters and tags named like the services)
					g.Decoys, g.Place = true, 1+sc%2
					verdict(t, g, fmt.Sprintf("exh:n=%d:look-alike-names", n))
					// and with every service that has no references and no tags declared as a placeholder (todo: true) that keeps its scope
					g = gen.EdgeGraph(n, edges, scopes)
					g.TodoSinks = true
					verdict(t, g, fmt.Sprintf("exh:n=%d:todo-sinks", n))
					// and with references to undefined services before, between and after the defined names, the missing-services rule switched off
					if sc%4 == kind%4 {
						g = gen.EdgeGraph(n, edges, scopes)
						g.Dangling = true
						verdict(t, g, fmt.Sprintf("exh:n=%d:undefined-references-ignored", n))
					}
				}
			}
		}
	}
	// depth: chains of 70 and 140 services from a shared root to a contextual leaf, one edge kind each
	for kind := 0; kind < 5; kind++ {
		idx++
		if !ev.Mine(idx) {
			continue
		}
		for _, n := range []int{70, 140} {
			scopes := make([]string, n)
			scopes[0], scopes[n-1] = "shared", "contextual"
			var edges [][3]int
			for i := 0; i+1 < n; i++ {
				edges = append(edges, [3]int{i, i + 1, kind})
			}
			verdict(t, gen.EdgeGraph(n, edges, scopes), fmt.Sprintf("depth:chain-of-%d", n))
			scopes[n-1] = ""
			verdict(t, gen.EdgeGraph(n, edges, scopes), fmt.Sprintf("depth:chain-of-%d:no-contextual-leaf", n))
		}
	}
	col.Exhaustive("every acyclic dependency graph on 2 and on 3 services x one edge kind of {argument, field, call argument, !tagged through a tag, decorator-on-tag with a dependency} x every assignment of {unset, shared, contextual, non_shared}, each also with look-alike names (a parameter named like every service referenced by every service, every service carrying a tag named like another service) and packed argument lists, and with the services that reference nothing declared as placeholders (todo: true) keeping their scope")
	if ev.Thorough() {
		// n = 3 with mixed edge kinds, n = 4 with at most 5 edges: sampled by rapid
		setRapidChecks(4000)
		rapid.Check(t, func(rt *rapid.T) {
			n := rapid.IntRange(3, 4).Draw(rt, "n")
			perm := rapid.Permutation([]int{0, 1, 2, 3}[:n]).Draw(rt, "order")
			var edges [][3]int
			ne := rapid.IntRange(1, 5).Draw(rt, "ne")
			for i := 0; i < ne; i++ {
				a := rapid.IntRange(1, n-1).Draw(rt, "from")
				b := rapid.IntRange(0, a-1).Draw(rt, "to")
				edges = append(edges, [3]int{perm[a], perm[b], rapid.IntRange(0, 4).Draw(rt, "kind")})
			}
			scopes := make([]string, n)
			for i := range scopes {
				scopes[i] = rapid.SampledFrom(scopeChoices).Draw(rt, "scope")
			}
			g := gen.EdgeGraph(n, edges, scopes)
			g.Decoys, g.Place = rapid.Bool().Draw(rt, "decoys"), rapid.IntRange(0, 2).Draw(rt, "place")
			g.TodoSinks = rapid.IntRange(0, 2).Draw(rt, "todosinks") == 0
			verdict(rt, g, "random:mixed-kinds")
		})
	}

	// (b0) hand-built behaviour: a service without arguments that becomes contextual only through the dependency of a
	// decorator on one of its tags, with two and three decorators in every declaration order
	if ev.Mine(0) {
		var c behCase
		decs := []cfg.Decorator{
			{Tag: "t1", Fn: "fx/lib.Decorate", Args: []cfg.Val{cfg.Str("@ctx")}},
			{Tag: "t2", Fn: "fx/lib.Decorate"},
			{Tag: "t3", Fn: "fx/lib.Decorate", Args: []cfg.Val{cfg.Str("x")}},
		}
		for _, order := range [][]int{{0, 1}, {1, 0}, {0, 1, 2}, {2, 1, 0}, {1, 0, 2}, {0, 2, 1}, {0}} {
			conf := cfg.Config{Meta: cfg.Meta{Pkg: sp("app")}, Services: []cfg.Service{
				{Name: "ctx", Ctor: sp("fx/lib.NewObj"), Scope: sp("contextual")},
				{Name: "a", Ctor: sp("fx/lib.NewObj"), Tags: []cfg.Tag{{Name: "t1"}}},
				{Name: "b", Ctor: sp("fx/lib.NewObj"), Tags: []cfg.Tag{{Name: "t2"}}},
				{Name: "ab", Ctor: sp("fx/lib.NewObj"), Tags: []cfg.Tag{{Name: "t2"}, {Name: "t1"}, {Name: "t3"}}},
				{Name: "user", Ctor: sp("fx/lib.NewObj"), Args: []cfg.Val{cfg.Str("@a"), cfg.Str("@b")}},
			}}
			for _, i := range order {
				conf.Decorators = append(conf.Decorators, decs[i])
			}
			var ops []fx.Op
			for _, ctx := range []string{"A", "B", "A", ""} {
				for _, n := range []string{"a", "b", "ab", "user", "ctx"} {
					ops = append(ops, fx.Op{Op: "get", ID: n, Ctx: ctx})
				}
			}
			c.Members = append(c.Members, behMember{Files: []cfg.Config{conf}, Script: fx.Script{Ops: ops}, Labels: []string{"hand-built:contextual-through-a-decorator", fmt.Sprintf("decorators:%d", len(order))}})
		}
		behBatch(t, c, c05NonTrivial, c05Check, nil)
	}

	// (b) behaviour: histories of Get / GetInContext / GetTaggedBy on accepted configurations
	batch := pick(20, 32)
	setRapidChecks(pick(5, 50))
	opts := behaviouralOpts()
	opts.ScopeHeavy = true
	opts.ValueKinds = false
	opts.Funcs = false
	opts.Todo = false
	opts.FailCtor = false
	rapid.Check(t, func(rt *rapid.T) {
		if deadlinePassed() {
			rt.Skip("budget used up")
		}
		var c behCase
		k := rapid.IntRange(batch/2, batch).Draw(rt, "batch")
		for i := 0; i < k; i++ {
			m, conf := drawMember(rt, opts, 3)
			m.Script = fx.Script{Ops: drawHistory(rt, conf, 8)}
			c.Members = append(c.Members, m)
		}
		behBatch(rt, c, c05NonTrivial, c05Check, nil)
	})
	if !deadlinePassed() {
		col.Complete()
	}
}

func verdictEvalAndClean(t tb, c cfgCase) {
	if _, o := verdictEval(t, c); o != nil {
		o.cleanup()
	}
}
