//go:build verif

package checks

import (
	"fmt"
	"os"
	"testing"
	"verifh/ref"

	"pgregory.net/rapid"

	"verifh/cfg"
	"verifh/ev"
	"verifh/fx"
	"verifh/gen"
)

func c15NonTrivial(m behMember, merged cfg.Config) bool {
	seenOverride := false
	for _, op := range m.Script.Ops {
		switch op.Op {
		case "new":
			seenOverride = false
		case "overrideParam", "overrideService":
			seenOverride = true
		case "get", "param", "tagged":
			if seenOverride {
				return true
			}
		}
	}
	return false
}

// c15OnReject: placeholders count as declared - a configuration the reference analysis accepts must be accepted.
func c15OnReject(t tb, m behMember, merged cfg.Config, o Outcome) {
	if a := ref.Analyse(merged); a.Stage(false, false) == "accept" {
		violation(t, "valid-configuration-rejected", fmt.Sprintf("a configuration with placeholders that is valid by the documented rules was rejected: %v", o.Report.Errors), behCase{Members: []behMember{m}})
		return
	}
	ev.Get().Exclude("rejected-by-tool")
}

func c15Check(t tb, bc behContext) {
	if checkAgainstModel(t, bc, "") {
		col := ev.Get()
		col.Label("history-matched-model")
		n := 0
		for _, op := range bc.M.Script.Ops {
			if op.Op == "new" {
				n++
			}
		}
		col.LabelN("histories", n+1)
	}
}

// allHistories enumerates every sequence over alphabet of length 1..maxLen, separated by "new".
func allHistories(alphabet []fx.Op, maxLen int) []fx.Op {
	var ops []fx.Op
	var rec func(prefix []fx.Op)
	rec = func(prefix []fx.Op) {
		if len(prefix) > 0 {
			ops = append(ops, fx.Op{Op: "new"})
			ops = append(ops, prefix...)
			ops = append(ops, fx.Op{Op: "counters"})
		}
		if len(prefix) == maxLen {
			return
		}
		for _, a := range alphabet {
			rec(append(append([]fx.Op(nil), prefix...), a))
		}
	}
	rec(nil)
	return ops
}

func c15SmallConfigs() []cfg.Config {
	a := cfg.Config{
		Meta: cfg.Meta{Pkg: sp("app"), Functions: []cfg.KV{{K: "cnt", V: "fx/lib.Count"}}},
		Params: []cfg.Param{
			{Name: "p0", Val: cfg.Str(`%todo()%`)},
			{Name: "p1", Val: cfg.Str(`say "%p0%"-x`)}, // quotation marks in plain text mean nothing to the pattern syntax
			{Name: "p2", Val: cfg.Str(`%cnt("k2", 5)%`)},
			{Name: "p3", Val: cfg.Str(`%p0%`)}, // a pure alias of the todo parameter
		},
		Services: []cfg.Service{
			{Name: "s0", Todo: bp(true)},
			{Name: "s1", Ctor: sp("fx/lib.NewObj"), Args: []cfg.Val{cfg.Str("@s0"), cfg.Str("%p1%")}},
			{Name: "s2", Ctor: sp("fx/lib.NewObj"), Args: []cfg.Val{cfg.Str("%p0%"), cfg.Str("%p2%"), cfg.Str("%p3%")}, Scope: sp("shared")},
		},
	}
	b := cfg.Config{
		Meta: cfg.Meta{Pkg: sp("app"), Functions: []cfg.KV{{K: "cnt", V: "fx/libx.Count"}}},
		Params: []cfg.Param{
			{Name: "p0", Val: cfg.Str(`%todo("fill me,in (1,000) ,ok :) 100\x25d")%`)}, // the given message, with separators and brackets inside the string
			{Name: "p1", Val: cfg.Str(`%cnt("k1", 1)%%p0%`)},
		},
		Services: []cfg.Service{
			{Name: "s0", Todo: bp(true)},
			{Name: "s1", Ctor: sp("fx/lib.NewVal"), Args: []cfg.Val{cfg.Str("@s0")}, Scope: sp("non_shared"), Tags: []cfg.Tag{{Name: "t"}}},
			{Name: "s2", Ctor: sp("fx/lib.NewObj"), Fields: []cfg.Field{{Name: "FieldA", Val: cfg.Str("!tagged t")}, {Name: "FieldB", Val: cfg.Str("%p1%")}}},
		},
		Decorators: []cfg.Decorator{{Tag: "t", Fn: "fx/lib.Decorate", Args: []cfg.Val{cfg.Str("%p0%")}}},
	}
	// c: no parameters in the way - a placeholder without scope, a direct and an indirect dependant without scope
	c := cfg.Config{
		Meta: cfg.Meta{Pkg: sp("app")},
		Services: []cfg.Service{
			{Name: "s0", Todo: bp(true)},
			{Name: "s1", Ctor: sp("fx/lib.NewObj"), Args: []cfg.Val{cfg.Str("@s0")}},
			{Name: "s2", Ctor: sp("fx/lib.NewObj"), Fields: []cfg.Field{{Name: "FieldA", Val: cfg.Str("@s1")}}},
		},
	}
	return []cfg.Config{a, b, c}
}

func c15Alphabet(i int) []fx.Op {
	if i == 2 {
		return []fx.Op{
			{Op: "get", ID: "s1", Ctx: "A"}, {Op: "get", ID: "s1", Ctx: "B"}, {Op: "get", ID: "s2", Ctx: "A"}, {Op: "get", ID: "s2", Ctx: "B"}, {Op: "get", ID: "s2"},
			{Op: "get", ID: "s0", Ctx: "A"},
			{Op: "overrideService", ID: "s0", Val: &fx.Lit{K: "ctx", S: "mc"}}, {Op: "overrideService", ID: "s0", Val: &fx.Lit{K: "str", S: "m1"}},
		}
	}
	base := []fx.Op{
		{Op: "param", ID: "p0"}, {Op: "param", ID: "p1"},
		{Op: "get", ID: "s1"}, {Op: "get", ID: "s2"},
		{Op: "overrideParam", ID: "p0", Val: &fx.Lit{K: "int", I: 7}},
		{Op: "overrideParam", ID: "p0", Val: &fx.Lit{K: "str", S: "z"}},
		{Op: "overrideService", ID: "s0", Val: &fx.Lit{K: "str", S: "m1"}},
		{Op: "overrideService", ID: "s0", Val: &fx.Lit{K: "ctx", S: "mc"}}, // the placeholder is supplied as a contextual service
		{Op: "get", ID: "s1", Ctx: "A"}, {Op: "get", ID: "s1", Ctx: "B"},
	}
	if i == 0 {
		base = append(base, fx.Op{Op: "param", ID: "p2"}, fx.Op{Op: "param", ID: "p3"})
	} else {
		base = append(base, fx.Op{Op: "tagged", ID: "t"}, fx.Op{Op: "overrideService", ID: "s1", Val: &fx.Lit{K: "str", S: "m2"}})
	}
	return base
}

// drawOverrideHistory draws a history with overrides for an arbitrary configuration.
func drawOverrideHistory(rt *rapid.T, c cfg.Config, maxLen int) []fx.Op {
	var svcs, params, tags []string
	seen := map[string]bool{}
	for _, s := range c.Services {
		svcs = append(svcs, s.Name)
		for _, t := range s.Tags {
			if !seen[t.Name] {
				seen[t.Name] = true
				tags = append(tags, t.Name)
			}
		}
	}
	for _, p := range c.Params {
		params = append(params, p.Name)
	}
	ops := []fx.Op{{Op: "counters"}} // laziness: nothing has been evaluated by the constructor
	n := rapid.IntRange(2, maxLen).Draw(rt, "hlen")
	for i := 0; i < n; i++ {
		k := rapid.IntRange(0, 9).Draw(rt, "opkind")
		switch {
		case k <= 2 && len(svcs) > 0:
			ops = append(ops, fx.Op{Op: "get", ID: rapid.SampledFrom(svcs).Draw(rt, "svc"), Ctx: rapid.SampledFrom([]string{"", "", "A"}).Draw(rt, "ctx")})
		case k <= 4 && len(params) > 0:
			ops = append(ops, fx.Op{Op: "param", ID: rapid.SampledFrom(params).Draw(rt, "param")})
		case k == 5 && len(tags) > 0:
			ops = append(ops, fx.Op{Op: "tagged", ID: rapid.SampledFrom(tags).Draw(rt, "tag")})
		case k <= 7 && len(params) > 0:
			lit := rapid.SampledFrom([]fx.Lit{{K: "int", I: 41}, {K: "str", S: "over"}, {K: "bool", B: true}, {K: "float", F: 2.5}}).Draw(rt, "lit")
			ops = append(ops, fx.Op{Op: "overrideParam", ID: rapid.SampledFrom(params).Draw(rt, "oparam"), Val: &lit})
		case k == 8 && len(svcs) > 0:
			ops = append(ops, fx.Op{Op: "overrideService", ID: rapid.SampledFrom(svcs).Draw(rt, "osvc"), Val: &fx.Lit{K: rapid.SampledFrom([]string{"str", "str", "ctx"}).Draw(rt, "oscope"), S: rapid.SampledFrom([]string{"m1", "m2"}).Draw(rt, "marker")}})
		default:
			ops = append(ops, fx.Op{Op: "counters"})
		}
	}
	ops = append(ops, fx.Op{Op: "counters"})
	return ops
}

func TestC15(t *testing.T) {
	col := ev.Get()
	stored := func(path string) {
		if payloadHas(t, path, "config") { // a verdict case stored as the configuration itself
			var cc cfgCase
			loadRegress(t, path, &cc)
			verdictEvalAndClean(t, cc)
			return
		}
		var rc behCase
		loadRegress(t, path, &rc)
		if len(rc.Members) == 1 && len(rc.Members[0].Script.Ops) == 0 && len(rc.Members[0].Files) == 1 {
			verdictEvalAndClean(t, cfgCase{C: rc.Members[0].Files[0], Style: rc.Members[0].Style})
			return
		}
		behBatch(t, rc, c15NonTrivial, c15Check, c15OnReject)
	}
	if p := os.Getenv("VERIF_REPLAY"); p != "" {
		stored(p)
		col.Complete()
		return
	}
	for _, f := range regressFiles("C15") {
		stored(f)
		col.Label("regress")
	}

	// (1) build time: todo names count as declared, also when they are the only definitions
	if ev.Mine(0) {
		onlyTodo := []cfg.Config{
			{Meta: cfg.Meta{Pkg: sp("app")}, Params: []cfg.Param{{Name: "a", Val: cfg.Str(`%todo()%`)}, {Name: "b", Val: cfg.Str(`%todo("msg")%`)}}, Services: []cfg.Service{{Name: "s", Todo: bp(true)}, {Name: "t", Todo: bp(true)}}},
			{Meta: cfg.Meta{Pkg: sp("app")}, Services: []cfg.Service{{Name: "s", Todo: bp(true)}}},
			{Meta: cfg.Meta{Pkg: sp("app")}, Params: []cfg.Param{{Name: "a", Val: cfg.Str(`%todo()%`)}}},
			{Meta: cfg.Meta{Pkg: sp("app")}, Params: []cfg.Param{{Name: "a", Val: cfg.Str(`%todo()%`)}, {Name: "b", Val: cfg.Str(`x%a%`)}},
				Services:   []cfg.Service{{Name: "s", Todo: bp(true)}, {Name: "d", Ctor: sp("fx/lib.NewObj"), Args: []cfg.Val{cfg.Str("@s"), cfg.Str("%a%")}, Tags: []cfg.Tag{{Name: "t"}}}},
				Decorators: []cfg.Decorator{{Tag: "t", Fn: "fx/lib.Decorate", Args: []cfg.Val{cfg.Str("@s"), cfg.Str("%b%")}}}},
			{Meta: cfg.Meta{Pkg: sp("app")}, Services: []cfg.Service{{Name: "s", Todo: bp(true), Getter: sp("MustBeIgnored"), Ctor: sp("not a func"), Tags: []cfg.Tag{{Name: "bad tag"}}}}},
		}
		for _, c := range onlyTodo {
			a, o := verdictEval(t, cfgCase{C: c})
			if o != nil {
				col.Case(ev.Hash(c), true)
				col.Label("verdict:todo-only:" + a.Stage(false, false))
				o.cleanup()
			}
		}
	}

	// (1b) every form of the message: none, empty, empty followed by more arguments, a message followed by an empty one -
	// the documented text is the given message (first argument) or 'parameter todo' when there is no argument
	if ev.Mine(4) {
		conf := cfg.Config{Meta: cfg.Meta{Pkg: sp("app")}, Params: []cfg.Param{
			{Name: "e0", Val: cfg.Str(`%todo("")%`)}, {Name: "e1", Val: cfg.Str(`%todo("", "x")%`)}, {Name: "e2", Val: cfg.Str(`%todo("msg", "")%`)},
			{Name: "e3", Val: cfg.Str(`%todo()%`)}, {Name: "e4", Val: cfg.Str(`%todo(" ")%`)}, {Name: "dep", Val: cfg.Str(`v=%e0%`)}, {Name: "dep1", Val: cfg.Str(`%e1%`)}},
			Services: []cfg.Service{{Name: "s", Ctor: sp("fx/lib.NewObj"), Args: []cfg.Val{cfg.Str("%e1%")}}, {Name: "u", Ctor: sp("fx/lib.NewObj"), Args: []cfg.Val{cfg.Str("%dep%")}}}}
		m := behMember{Files: []cfg.Config{conf}, Script: scriptAll(conf), Labels: []string{"hand-built:todo-message-forms"}}
		behBatch(t, behCase{Members: []behMember{m}}, c15NonTrivial, c15Check, c15OnReject)
	}

	// (2) exhaustive histories on two small configurations
	maxLen := pick(3, 4)
	var members []behMember
	for i, c := range c15SmallConfigs() {
		if !ev.Mine(i + 1) {
			continue
		}
		ops := allHistories(c15Alphabet(i), maxLen)
		members = append(members, behMember{Files: []cfg.Config{c}, Script: fx.Script{Ops: ops, Timeout: 300}, Labels: []string{"exhaustive-histories"}})
	}
	if len(members) > 0 {
		behBatch(t, behCase{Members: members}, c15NonTrivial, c15Check, c15OnReject)
	}
	col.Exhaustive("every history of length <= 3 (quick) / 4 (thorough) over {GetParam x2-3, Get x2, GetTaggedBy, OverrideParam x2, OverrideService x1-2} on three small configurations with todo parameters/services (the placeholder service is also supplied as a contextual service), dependants, counted parameter functions, a decorator and three scopes")

	// (3) random configurations with todo placeholders and random histories
	batch := pick(20, 32)
	setRapidChecks(pick(5, 50))
	opts := behaviouralOpts()
	opts.ValueKinds = false
	opts.FailCtor = false
	rapid.Check(t, func(rt *rapid.T) {
		if deadlinePassed() {
			rt.Skip("budget used up")
		}
		var c behCase
		k := rapid.IntRange(batch/2, batch).Draw(rt, "batch")
		for i := 0; i < k; i++ {
			conf, labels := gen.Valid(rt, opts)
			nm := rapid.IntRange(0, 3).Draw(rt, "ntodo")
			lb := labels.List()
			for j := 0; j < nm; j++ {
				lb = append(lb, gen.MakeTodo(rt, &conf, "todo"))
			}
			m := behMember{Style: drawStyle(rt), Labels: lb, Files: []cfg.Config{conf}}
			m.Script = fx.Script{Ops: drawOverrideHistory(rt, conf, 8), Env: scriptAll(conf).Env}
			c.Members = append(c.Members, m)
		}
		behBatch(rt, c, c15NonTrivial, c15Check, c15OnReject)
	})
	if !deadlinePassed() {
		col.Complete()
	}
}
