//go:build verif

package checks

import (
	"bytes"
	"fmt"
	"path"
	"sort"
	"strings"
	"testing"

	"pgregory.net/rapid"

	"verifh/cfg"
	"verifh/ev"
	"verifh/gen"
	"verifh/ref"
	"verifh/sut"
)

// c09Case: Files are merged in this order; Names[i] is where Files[i] is written;
// Patterns are the -i arguments. Empty marks files that carry no configuration.
type c09Case struct {
	Whole    cfg.Config   `json:"whole"`
	Files    []cfg.Config `json:"files"`
	Raw      []string     `json:"raw,omitempty"` // if set, Raw[i] replaces the emitted text of Files[i] (empty-file spellings)
	Names    []string     `json:"names"`
	Patterns []string     `json:"patterns"`
	Style    cfg.Style    `json:"style"`
	Bracket  int          `json:"bracket"` // associativity: merge Files[:Bracket] and Files[Bracket:] first
	Labels   []string     `json:"labels,omitempty"`
	Build    string       `json:"build,omitempty"` // build version of the command ("" = a development build: the version attribute is not looked at)
}

// naming draws file names and patterns for n files and returns the names in the
// order in which the documented rule processes them: patterns in order, and within
// one pattern the cleaned paths in byte-wise lexical order.
func drawNaming(rt *rapid.T, n int) (names []string, patterns []string, label string) {
	group := func(pool []string, k int, lbl string) []string {
		p := rapid.Permutation(pool).Draw(rt, lbl)
		return append([]string(nil), p[:k]...)
	}
	sortClean := func(xs []string) []string {
		out := make([]string, len(xs))
		for i, x := range xs {
			out[i] = path.Clean(x)
		}
		sort.Strings(out)
		return out
	}
	dirPool := []string{"d", "d-a", "d.b", "d0", "dA", "d_z", "da", "d-", "dd"}
	filePool := []string{"x10.yaml", "x9.yaml", "xA.yaml", "xa.yaml", "x_.yaml", "x-.yaml", "x1.yaml", "x.yaml", "xZ.yaml"}
	explicitPool := []string{"zeta.yaml", "Alpha.yaml", "m/beta.yaml", "m/Alpha.yaml", "10.yaml", "9.yaml", "a.yml", "conf.d/z.yaml", "conf.d/a.yaml", "region,eu.yaml", "a,b/c,d.yaml", `q"r.yaml`, "with space.yaml", "tab\tname.yaml"}
	switch rapid.IntRange(0, 4).Draw(rt, "scheme") {
	case 0:
		ns := group(explicitPool, n, "explicit")
		return ns, ns, "explicit-list"
	case 1:
		ds := group(dirPool, n, "dirs")
		var fs []string
		for _, d := range ds {
			fs = append(fs, d+"/x.yaml")
		}
		return sortClean(fs), []string{"d*/x.yaml"}, "glob-over-directories"
	case 2:
		fs := group(filePool, n, "files")
		return sortClean(fs), []string{"x*.yaml"}, "glob-over-files"
	case 3:
		fs := group(filePool, n, "files")
		var in []string
		for _, f := range fs {
			in = append(in, "sub/"+f)
		}
		pat := rapid.SampledFrom([]string{"./sub//x*.yaml", "sub/../sub/x*.yaml", "sub/./x*.yaml"}).Draw(rt, "unclean")
		return sortClean(in), []string{pat}, "unclean-pattern"
	}
	// mixed: k explicit files first or last, the rest through a glob
	k := rapid.IntRange(1, n).Draw(rt, "k")
	ex := group(explicitPool, k, "explicit")
	var gl []string
	if n-k > 0 {
		ds := group(dirPool, n-k, "dirs")
		for _, d := range ds {
			gl = append(gl, d+"/x.yaml")
		}
		gl = sortClean(gl)
	}
	if rapid.Bool().Draw(rt, "glob-first") && len(gl) > 0 {
		return append(gl, ex...), append([]string{"d*/x.yaml"}, ex...), "glob-then-explicit"
	}
	if len(gl) > 0 {
		return append(ex, gl...), append(append([]string(nil), ex...), "d*/x.yaml"), "explicit-then-glob"
	}
	return ex, ex, "explicit-list"
}

func c09Build(files []cfg.Config, raw []string, names, patterns []string, st cfg.Style, build string) (Outcome, error) {
	spec := Spec{Version: build}
	for i, f := range files {
		text := ""
		if raw != nil && i < len(raw) && raw[i] != "\x00" {
			text = raw[i]
		} else {
			s := st
			s.Seed += uint64(i) * 131
			t, err := cfg.Emit(f, s)
			if err != nil {
				return Outcome{}, err
			}
			text = t
		}
		spec.Files = append(spec.Files, File{Name: names[i], Content: text})
	}
	spec.Patterns = patterns
	// relative patterns: run through the binary-free in-process adapter with absolute prefix
	return runInprocRel(spec), nil
}

// runInprocRel keeps pattern spellings (./a//b) by prefixing only the directory.
func runInprocRel(s Spec) Outcome {
	dir := writeSpec(s)
	var pats []string
	for _, p := range s.patterns() {
		pats = append(pats, dir+"/"+p)
	}
	return runInprocAbsV(dir, pats, s.Flags, s.Version)
}

func normGeneric(v any) any {
	switch x := v.(type) {
	case map[string]any:
		out := map[string]any{}
		for k, e := range x {
			n := normGeneric(e)
			switch y := n.(type) {
			case []any:
				if len(y) == 0 {
					continue
				}
			case map[string]any:
				if len(y) == 0 {
					continue
				}
			}
			out[k] = n
		}
		return out
	case []any:
		out := make([]any, len(x))
		for i := range x {
			out[i] = normGeneric(x[i])
		}
		return out
	}
	return v
}

func c09Eval(t tb, c c09Case) {
	col := ev.Get()
	// the split must mean the whole (guards the generator)
	merged := ref.Merge(c.Files...)
	if fmt.Sprintf("%#v", normGeneric(cfg.Generic(canon(merged)))) != fmt.Sprintf("%#v", normGeneric(cfg.Generic(canon(c.Whole)))) {
		col.Exclude("split-does-not-merge-to-whole")
		col.Sample("bad-split", 1, map[string]any{"whole": c.Whole, "files": c.Files})
		return
	}
	single, err := singleFile(c.Whole, cfg.Style{}, sut.Flags{})
	if err != nil {
		col.Exclude("serialiser-self-check")
		return
	}
	single.Version = c.Build
	base := runInproc(single)
	defer base.cleanup()
	wantReject := false
	if base.Res.Exit != 0 && c.Build != "" && observeVerdict(base).Stage == "input" && len(base.Report.Errors) == 1 && strings.Contains(base.Report.Errors[0], "version") {
		// the whole declares a version this build rejects: every split form must be rejected the same way
		wantReject = true
	} else if base.Res.Exit != 0 {
		col.Exclude("single-file-form-rejected")
		col.Sample("rejected", 1, map[string]any{"errors": base.Report.Errors})
		return
	}
	nontrivial := len(c.Files) >= 2
	col.Case(ev.Hash(c), nontrivial)
	for _, l := range c.Labels {
		col.Label(l)
	}
	col.Label(fmt.Sprintf("files:%d", len(c.Files)))
	check := func(name string, files []cfg.Config, raw []string, names, patterns []string) bool {
		o, err := c09Build(files, raw, names, patterns, c.Style, c.Build)
		if err != nil {
			col.Exclude("serialiser-self-check")
			return true
		}
		defer o.cleanup()
		if o.Res.Panic != "" {
			violation(t, "panic", oneLine(o.Res.Panic), c)
			return false
		}
		if wantReject {
			if o.Res.Exit == 0 || strings.Join(o.Report.Errors, "\n") != strings.Join(base.Report.Errors, "\n") {
				violation(t, name+":version-verdict-differs", fmt.Sprintf("%s: the single-file form is rejected with %v, this form: exit %d %v", name, base.Report.Errors, o.Res.Exit, o.Report.Errors), c)
				return false
			}
			return true
		}
		if o.Res.Exit != 0 {
			violation(t, name+":rejected", fmt.Sprintf("%s: the single-file form is accepted, this form is rejected: %v", name, o.Report.Errors), c)
			return false
		}
		if !bytes.Equal(o.Out, base.Out) {
			violation(t, name+":output-differs", fmt.Sprintf("%s: output differs from the single-file form (first difference at byte %d: %q vs %q)", name, firstDiff(o.Out, base.Out), around(o.Out, firstDiff(o.Out, base.Out)), around(base.Out, firstDiff(o.Out, base.Out))), c)
			return false
		}
		return true
	}
	// (1) split invariance, with the drawn naming
	if !check("split", c.Files, c.Raw, c.Names, c.Patterns) {
		return
	}
	// (2) model: one file holding the reference merge
	if !check("reference-merge", []cfg.Config{merged}, nil, []string{"m.yaml"}, []string{"m.yaml"}) {
		return
	}
	// (3) associativity: merge a prefix and the suffix first
	if len(c.Files) >= 2 && c.Bracket > 0 && c.Bracket < len(c.Files) {
		l, r := ref.Merge(c.Files[:c.Bracket]...), ref.Merge(c.Files[c.Bracket:]...)
		if !check("bracketing", []cfg.Config{l, r}, nil, []string{"l.yaml", "r.yaml"}, []string{"l.yaml", "r.yaml"}) {
			return
		}
		col.Label("associativity-checked")
	}
	col.Label("split-invariant")
	col.Sample("split", 2, map[string]any{"names": c.Names, "patterns": c.Patterns, "labels": c.Labels})
}

func around(b []byte, i int) string {
	lo, hi := i-30, i+30
	if lo < 0 {
		lo = 0
	}
	if hi > len(b) {
		hi = len(b)
	}
	return string(b[lo:hi])
}

// canon sorts the order-insensitive parts so that two equal configurations compare equal.
func canon(c cfg.Config) cfg.Config {
	c = c.Clone()
	sort.SliceStable(c.Meta.Imports, func(i, j int) bool { return c.Meta.Imports[i].K < c.Meta.Imports[j].K })
	sort.SliceStable(c.Meta.Functions, func(i, j int) bool { return c.Meta.Functions[i].K < c.Meta.Functions[j].K })
	sort.SliceStable(c.Params, func(i, j int) bool { return c.Params[i].Name < c.Params[j].Name })
	sort.SliceStable(c.Services, func(i, j int) bool { return c.Services[i].Name < c.Services[j].Name })
	for i := range c.Services {
		s := &c.Services[i]
		sort.SliceStable(s.Fields, func(a, b int) bool { return s.Fields[a].Name < s.Fields[b].Name })
		for j := range s.Calls {
			s.Calls[j].Arity = 3 // spelling only
		}
		for j := range s.Tags {
			s.Tags[j].ObjForm, s.Tags[j].NoPrio = true, false
		}
	}
	return c
}

// overridePairs enumerates, for every attribute, a two-file configuration whose second
// file overrides / extends the first, with the single file it must be equivalent to.
func withBuild(b string, c c09Case) c09Case {
	c.Build = b
	return c
}

func overridePairs() []c09Case {
	ctor := sp("fx/lib.NewObj")
	mk := func(label string, a, b, whole cfg.Config) c09Case {
		return c09Case{Whole: whole, Files: []cfg.Config{a, b}, Names: []string{"1.yaml", "2.yaml"}, Patterns: []string{"1.yaml", "2.yaml"}, Bracket: 1, Labels: []string{"override:" + label}}
	}
	svc := func(s cfg.Service) cfg.Config {
		return cfg.Config{Meta: cfg.Meta{Pkg: sp("app")}, Services: []cfg.Service{s}}
	}
	var r []c09Case
	r = append(r,
		mk("meta.pkg", cfg.Config{Meta: cfg.Meta{Pkg: sp("first")}}, cfg.Config{Meta: cfg.Meta{Pkg: sp("second")}}, cfg.Config{Meta: cfg.Meta{Pkg: sp("second")}}),
		mk("meta.container_type", cfg.Config{Meta: cfg.Meta{Pkg: sp("app"), Type: sp("A")}}, cfg.Config{Meta: cfg.Meta{Type: sp("B")}}, cfg.Config{Meta: cfg.Meta{Pkg: sp("app"), Type: sp("B")}}),
		mk("meta.container_constructor", cfg.Config{Meta: cfg.Meta{Pkg: sp("app"), Ctor: sp("NewA")}}, cfg.Config{Meta: cfg.Meta{Ctor: sp("NewB")}}, cfg.Config{Meta: cfg.Meta{Pkg: sp("app"), Ctor: sp("NewB")}}),
		mk("meta.default_must_getter", cfg.Config{Meta: cfg.Meta{Pkg: sp("app"), DefaultMust: bp(true)}, Services: []cfg.Service{{Name: "s", Ctor: ctor, Getter: sp("G")}}}, cfg.Config{Meta: cfg.Meta{DefaultMust: bp(false)}},
			cfg.Config{Meta: cfg.Meta{Pkg: sp("app"), DefaultMust: bp(false)}, Services: []cfg.Service{{Name: "s", Ctor: ctor, Getter: sp("G")}}}),
		mk("meta.imports", cfg.Config{Meta: cfg.Meta{Pkg: sp("app"), Imports: []cfg.KV{{K: "l", V: "fx/lib"}, {K: "k", V: "fx/libx"}}}, Services: []cfg.Service{{Name: "s", Ctor: sp("l.NewObj"), Args: []cfg.Val{cfg.Str("!value k.ID")}}}},
			cfg.Config{Meta: cfg.Meta{Imports: []cfg.KV{{K: "l", V: "fx/a/lib"}, {K: "m", V: "fx/b/lib"}}}},
			cfg.Config{Meta: cfg.Meta{Pkg: sp("app"), Imports: []cfg.KV{{K: "l", V: "fx/a/lib"}, {K: "k", V: "fx/libx"}, {K: "m", V: "fx/b/lib"}}}, Services: []cfg.Service{{Name: "s", Ctor: sp("l.NewObj"), Args: []cfg.Val{cfg.Str("!value k.ID")}}}}),
		mk("meta.functions", cfg.Config{Meta: cfg.Meta{Pkg: sp("app"), Functions: []cfg.KV{{K: "f", V: "fx/lib.Echo"}}}, Params: []cfg.Param{{Name: "p", Val: cfg.Str("%f(1)%")}}},
			cfg.Config{Meta: cfg.Meta{Functions: []cfg.KV{{K: "f", V: "fx/libx.Two"}, {K: "g", V: "fx/lib.Echo"}}}},
			cfg.Config{Meta: cfg.Meta{Pkg: sp("app"), Functions: []cfg.KV{{K: "f", V: "fx/libx.Two"}, {K: "g", V: "fx/lib.Echo"}}}, Params: []cfg.Param{{Name: "p", Val: cfg.Str("%f(1)%")}}}),
		mk("parameters", cfg.Config{Meta: cfg.Meta{Pkg: sp("app")}, Params: []cfg.Param{{Name: "a", Val: cfg.Int(1)}, {Name: "b", Val: cfg.Str("x")}}},
			cfg.Config{Params: []cfg.Param{{Name: "a", Val: cfg.Str("later")}, {Name: "c", Val: cfg.Null()}}},
			cfg.Config{Meta: cfg.Meta{Pkg: sp("app")}, Params: []cfg.Param{{Name: "a", Val: cfg.Str("later")}, {Name: "b", Val: cfg.Str("x")}, {Name: "c", Val: cfg.Null()}}}),
		mk("service.getter", svc(cfg.Service{Name: "s", Ctor: ctor, Getter: sp("GetA")}), cfg.Config{Services: []cfg.Service{{Name: "s", Getter: sp("GetB")}}}, svc(cfg.Service{Name: "s", Ctor: ctor, Getter: sp("GetB")})),
		mk("service.must_getter", svc(cfg.Service{Name: "s", Ctor: ctor, Getter: sp("GetA"), Must: bp(true)}), cfg.Config{Services: []cfg.Service{{Name: "s", Must: bp(false)}}}, svc(cfg.Service{Name: "s", Ctor: ctor, Getter: sp("GetA"), Must: bp(false)})),
		mk("service.type", svc(cfg.Service{Name: "s", Ctor: ctor, Getter: sp("GetA"), Type: sp("fx/lib.Iface")}), cfg.Config{Services: []cfg.Service{{Name: "s", Type: sp("*fx/lib.Obj")}}}, svc(cfg.Service{Name: "s", Ctor: ctor, Getter: sp("GetA"), Type: sp("*fx/lib.Obj")})),
		mk("service.value", svc(cfg.Service{Name: "s", Value: sp("fx/lib.GlobalObj")}), cfg.Config{Services: []cfg.Service{{Name: "s", Value: sp("fx/libx.GlobalVal")}}}, svc(cfg.Service{Name: "s", Value: sp("fx/libx.GlobalVal")})),
		mk("service.constructor", svc(cfg.Service{Name: "s", Ctor: ctor}), cfg.Config{Services: []cfg.Service{{Name: "s", Ctor: sp("fx/libx.NewVal")}}}, svc(cfg.Service{Name: "s", Ctor: sp("fx/libx.NewVal")})),
		mk("service.scope", svc(cfg.Service{Name: "s", Ctor: ctor, Scope: sp("shared")}), cfg.Config{Services: []cfg.Service{{Name: "s", Scope: sp("non_shared")}}}, svc(cfg.Service{Name: "s", Ctor: ctor, Scope: sp("non_shared")})),
		mk("service.todo", svc(cfg.Service{Name: "s", Ctor: ctor, Todo: bp(true)}), cfg.Config{Services: []cfg.Service{{Name: "s", Todo: bp(false)}}}, svc(cfg.Service{Name: "s", Ctor: ctor, Todo: bp(false)})),
		mk("service.arguments-replace", svc(cfg.Service{Name: "s", Ctor: ctor, Args: []cfg.Val{cfg.Int(1), cfg.Int(2)}}), cfg.Config{Services: []cfg.Service{{Name: "s", Args: []cfg.Val{cfg.Str("only")}}}}, svc(cfg.Service{Name: "s", Ctor: ctor, Args: []cfg.Val{cfg.Str("only")}})),
		mk("service.arguments-empty-keeps", svc(cfg.Service{Name: "s", Ctor: ctor, Args: []cfg.Val{cfg.Int(1), cfg.Int(2)}}), cfg.Config{Services: []cfg.Service{{Name: "s", Args: []cfg.Val{}}}}, svc(cfg.Service{Name: "s", Ctor: ctor, Args: []cfg.Val{cfg.Int(1), cfg.Int(2)}})),
		mk("service.calls-append", svc(cfg.Service{Name: "s", Ctor: ctor, Calls: []cfg.Call{{Method: "Call1", Args: []cfg.Val{cfg.Int(1)}}}}), cfg.Config{Services: []cfg.Service{{Name: "s", Calls: []cfg.Call{{Method: "With1", Wither: true}, {Method: "Call1"}}}}},
			svc(cfg.Service{Name: "s", Ctor: ctor, Calls: []cfg.Call{{Method: "Call1", Args: []cfg.Val{cfg.Int(1)}}, {Method: "With1", Wither: true}, {Method: "Call1"}}})),
		mk("service.tags-append", svc(cfg.Service{Name: "s", Ctor: ctor, Tags: []cfg.Tag{{Name: "a", Prio: 3}}}), cfg.Config{Services: []cfg.Service{{Name: "s", Tags: []cfg.Tag{{Name: "b"}}}}}, svc(cfg.Service{Name: "s", Ctor: ctor, Tags: []cfg.Tag{{Name: "a", Prio: 3}, {Name: "b"}}})),
		mk("service.fields-union", svc(cfg.Service{Name: "s", Ctor: ctor, Fields: []cfg.Field{{Name: "FieldA", Val: cfg.Int(1)}, {Name: "FieldB", Val: cfg.Int(2)}}}), cfg.Config{Services: []cfg.Service{{Name: "s", Fields: []cfg.Field{{Name: "FieldB", Val: cfg.Str("later")}, {Name: "fieldC", Val: cfg.Bool(true)}}}}},
			svc(cfg.Service{Name: "s", Ctor: ctor, Fields: []cfg.Field{{Name: "FieldA", Val: cfg.Int(1)}, {Name: "FieldB", Val: cfg.Str("later")}, {Name: "fieldC", Val: cfg.Bool(true)}}})),
		mk("decorators-append", cfg.Config{Meta: cfg.Meta{Pkg: sp("app")}, Services: []cfg.Service{{Name: "s", Ctor: ctor, Tags: []cfg.Tag{{Name: "t"}}}}, Decorators: []cfg.Decorator{{Tag: "t", Fn: "fx/lib.Decorate", Args: []cfg.Val{cfg.Int(1)}}}},
			cfg.Config{Decorators: []cfg.Decorator{{Tag: "t", Fn: "fx/libx.Decorate", Args: []cfg.Val{cfg.Int(2)}}}},
			cfg.Config{Meta: cfg.Meta{Pkg: sp("app")}, Services: []cfg.Service{{Name: "s", Ctor: ctor, Tags: []cfg.Tag{{Name: "t"}}}}, Decorators: []cfg.Decorator{{Tag: "t", Fn: "fx/lib.Decorate", Args: []cfg.Val{cfg.Int(1)}}, {Tag: "t", Fn: "fx/libx.Decorate", Args: []cfg.Val{cfg.Int(2)}}}}),
		mk("version", cfg.Config{Version: sp("1.0.0"), Meta: cfg.Meta{Pkg: sp("app")}}, cfg.Config{Version: sp("2.3.4")}, cfg.Config{Version: sp("2.3.4"), Meta: cfg.Meta{Pkg: sp("app")}}),
		withBuild("1.4.2", mk("version:release-build:later-compatible", cfg.Config{Version: sp("2.0.0"), Meta: cfg.Meta{Pkg: sp("app")}}, cfg.Config{Version: sp("1.4.0")}, cfg.Config{Version: sp("1.4.0"), Meta: cfg.Meta{Pkg: sp("app")}})),
		withBuild("1.4.2", mk("version:release-build:later-incompatible", cfg.Config{Version: sp("1.4.0"), Meta: cfg.Meta{Pkg: sp("app")}}, cfg.Config{Version: sp("2.0.0")}, cfg.Config{Version: sp("2.0.0"), Meta: cfg.Meta{Pkg: sp("app")}})),
		withBuild("0.3.1", mk("version:release-build:later-compatible-0.x", cfg.Config{Version: sp("0.4.0"), Meta: cfg.Meta{Pkg: sp("app")}}, cfg.Config{Version: sp("0.3.0")}, cfg.Config{Version: sp("0.3.0"), Meta: cfg.Meta{Pkg: sp("app")}})),
		mk("new-service-in-later-file", svc(cfg.Service{Name: "a", Ctor: ctor}), cfg.Config{Services: []cfg.Service{{Name: "b", Ctor: ctor, Args: []cfg.Val{cfg.Str("@a")}}}},
			cfg.Config{Meta: cfg.Meta{Pkg: sp("app")}, Services: []cfg.Service{{Name: "a", Ctor: ctor}, {Name: "b", Ctor: ctor, Args: []cfg.Val{cfg.Str("@a")}}}}),
	)
	return r
}

func TestC09(t *testing.T) {
	col := ev.Get()
	var rc c09Case
	if replayPayload(t, &rc) {
		c09Eval(t, rc)
		return
	}
	for _, f := range regressFiles("C09") {
		var c c09Case
		loadRegress(t, f, &c)
		c09Eval(t, c)
		col.Label("regress")
	}
	for i, c := range overridePairs() {
		if ev.Mine(i) {
			c09Eval(t, c)
			// and the same pair in reverse file-name order under one glob: lexical order decides
			c2 := c
			c2.Names = []string{"x9.yaml", "xA.yaml"}
			c2.Patterns = []string{"x*.yaml"}
			c2.Labels = append(append([]string(nil), c.Labels...), "glob-over-files")
			c09Eval(t, c2)
		}
	}
	// chains of three and four files on one service: an attribute set, unset and set again while the others accumulate
	{
		full := cfg.Service{Name: "s", Ctor: sp("fx/lib.NewObj"), Getter: sp("GetS"), Type: sp("*fx/lib.Obj"), Must: bp(true), Scope: sp("contextual"),
			Args: []cfg.Val{cfg.Str("x")}, Calls: []cfg.Call{{Method: "Call1", Args: []cfg.Val{cfg.Int(1)}}}, Fields: []cfg.Field{{Name: "FieldA", Val: cfg.Int(2)}}, Tags: []cfg.Tag{{Name: "t"}}}
		meta := cfg.Meta{Pkg: sp("app")}
		withTodo := func(v bool) cfg.Service { x := full.Clone(); x.Todo = bp(v); return x }
		only := func(f func(x *cfg.Service)) cfg.Config {
			x := cfg.Service{Name: "s"}
			f(&x)
			return cfg.Config{Services: []cfg.Service{x}}
		}
		chains := []c09Case{
			{Whole: cfg.Config{Meta: meta, Services: []cfg.Service{withTodo(false)}},
				Files:  []cfg.Config{{Meta: meta, Services: []cfg.Service{full}}, only(func(x *cfg.Service) { x.Todo = bp(true) }), only(func(x *cfg.Service) { x.Todo = bp(false) })},
				Labels: []string{"chain:todo-true-then-false"}},
			{Whole: cfg.Config{Meta: meta, Services: []cfg.Service{withTodo(false)}},
				Files:  []cfg.Config{only(func(x *cfg.Service) { x.Todo = bp(true); x.Scope = sp("contextual") }), {Meta: meta, Services: []cfg.Service{full}}, only(func(x *cfg.Service) { x.Todo = bp(false) }), only(func(x *cfg.Service) { x.Tags = nil })},
				Labels: []string{"chain:todo-first-definition-later"}},
			{Whole: cfg.Config{Meta: meta, Services: []cfg.Service{withTodo(true)}},
				Files:  []cfg.Config{{Meta: meta, Services: []cfg.Service{full}}, only(func(x *cfg.Service) { x.Todo = bp(false) }), only(func(x *cfg.Service) { x.Todo = bp(true) })},
				Labels: []string{"chain:todo-false-then-true"}},
			{Whole: cfg.Config{Meta: meta, Services: []cfg.Service{full}},
				Files: []cfg.Config{{Meta: meta, Services: []cfg.Service{{Name: "s", Scope: sp("contextual"), Ctor: sp("fx/lib.NewVal")}}}, only(func(x *cfg.Service) { x.Tags = []cfg.Tag{{Name: "t"}}; x.Getter = sp("GetS"); x.Must = bp(true) }),
					only(func(x *cfg.Service) {
						x.Ctor = sp("fx/lib.NewObj")
						x.Type = sp("*fx/lib.Obj")
						x.Args = []cfg.Val{cfg.Str("x")}
					}), only(func(x *cfg.Service) { x.Calls = full.Calls; x.Fields = full.Fields })},
				Labels: []string{"chain:attributes-accumulate-over-four-files"}},
		}
		for i, c := range chains {
			if !ev.Mine(i + 3) {
				continue
			}
			for k := range c.Files {
				c.Names = append(c.Names, fmt.Sprintf("%c%d.yaml", "mcxa"[k%4], k))
			}
			c.Patterns = c.Names
			c.Bracket = 1 + i%2
			c09Eval(t, c)
		}
	}
	// size: the same configuration as one small file, as one file of 18 MiB (comment lines between and after its sections)
	// and as three files of 6 MiB each
	if ev.Mine(7) {
		whole := cfg.Config{Meta: cfg.Meta{Pkg: sp("app")},
			Params: []cfg.Param{{Name: "first", Val: cfg.Int(1)}, {Name: "last", Val: cfg.Str("z")}},
			Services: []cfg.Service{
				{Name: "a", Ctor: sp("fx/lib.NewObj"), Args: []cfg.Val{cfg.Str("%first%")}, Calls: []cfg.Call{{Method: "Call1", Args: []cfg.Val{cfg.Int(10)}}, {Method: "Call2", Args: []cfg.Val{cfg.Int(20)}}}, Fields: []cfg.Field{{Name: "FieldA", Val: cfg.Int(7)}}, Tags: []cfg.Tag{{Name: "t"}}},
				{Name: "z", Ctor: sp("fx/lib.NewObj"), Args: []cfg.Val{cfg.Str("@a"), cfg.Str("%last%")}, Getter: sp("GetZ")}},
			Decorators: []cfg.Decorator{{Tag: "t", Fn: "fx/lib.Decorate", Args: []cfg.Val{cfg.Str("%last%")}}}}
		pad := strings.Repeat("# "+strings.Repeat("padding ", 15)+"\n", 6<<20/123+1) // about 6 MiB
		text, err := cfg.Emit(whole, cfg.Style{})
		if err == nil {
			// comment blocks in front of every top-level key and at the end
			var sb strings.Builder
			for _, line := range strings.SplitAfter(text, "\n") {
				if line != "" && line[0] >= 'a' && line[0] <= 'z' && (strings.HasPrefix(line, "services") || strings.HasPrefix(line, "decorators")) {
					sb.WriteString(pad)
				}
				sb.WriteString(line)
			}
			sb.WriteString(pad)
			c09Eval(t, c09Case{Whole: whole, Files: []cfg.Config{whole}, Raw: []string{sb.String()}, Names: []string{"big.yaml"}, Patterns: []string{"big.yaml"}, Labels: []string{"size:one-file-of-18-MiB"}})
			parts := []cfg.Config{{Meta: whole.Meta, Params: whole.Params}, {Services: whole.Services}, {Decorators: whole.Decorators}}
			var raws []string
			for _, p := range parts {
				pt, _ := cfg.Emit(p, cfg.Style{})
				raws = append(raws, pad+pt+pad)
			}
			c09Eval(t, c09Case{Whole: whole, Files: parts, Raw: raws, Names: []string{"m0.yaml", "c1.yaml", "x2.yaml"}, Patterns: []string{"m0.yaml", "c1.yaml", "x2.yaml"}, Bracket: 1, Labels: []string{"size:three-files-of-12-MiB"}})
		}
	}
	col.Exhaustive(fmt.Sprintf("%d overriding pairs, one per attribute (scalars later-wins, maps united key-wise, non-empty arguments replace, empty arguments keep, calls/tags/decorators append), each as explicit list and under one glob", len(overridePairs())))

	// hand-built: values that end in line breaks, written as literal block scalars (|, |+): as the last node of an input
	// file the value reaches to the end of the document, in the single-file form something follows it
	if ev.Mine(7) {
		for seed := uint64(0); seed < 6; seed++ {
			texts := []string{"x\n\n", "a\nb\n\n\n", "k: v\n", "two\nlines"}
			ta, tb := texts[seed%4], texts[(seed+1)%4]
			pfile := cfg.Config{Params: []cfg.Param{{Name: "a", Val: cfg.Int(1)}, {Name: "banner", Val: cfg.Str(ta)}}}
			sfile := cfg.Config{Services: []cfg.Service{{Name: "s", Ctor: sp("fx/lib.NewObj"), Args: []cfg.Val{cfg.Int(2), cfg.Str(tb)}}}}
			whole := cfg.Config{Meta: cfg.Meta{Pkg: sp("app")}, Params: pfile.Params, Services: sfile.Services}
			mfile := cfg.Config{Meta: whole.Meta}
			for _, order := range [][]cfg.Config{{mfile, pfile, sfile}, {sfile, pfile, mfile}, {pfile, mfile, sfile}} {
				names := []string{"x1.yaml", "x2.yaml", "x3.yaml"}
				for _, pats := range [][]string{names, {"x*.yaml"}} {
					c09Eval(t, c09Case{Whole: whole, Files: order, Names: names, Patterns: pats, Style: cfg.Style{Seed: seed, Blocks: true}, Bracket: 1 + int(seed%2), Labels: []string{"hand-built:block-scalar-ends-the-file"}})
				}
			}
		}
	}

	setRapidChecks(pick(120, 1200))
	opts := gen.All()
	opts.PkgMain = true
	rapid.Check(t, func(rt *rapid.T) {
		conf, labels := gen.Valid(rt, opts)
		build := ""
		if rapid.Bool().Draw(rt, "release-build") {
			// a release build looks at the declared version: the splitter leaves decoy versions in earlier files
			build = "1.4.2"
			conf.Version = sp(rapid.SampledFrom([]string{"1.4.0", "1.0.9", "1.4.2-rc.1"}).Draw(rt, "version"))
			labels.Add("release-build-with-declared-version")
		}
		n := rapid.IntRange(2, 4).Draw(rt, "nfiles")
		files := gen.Split(rt, conf, n)
		raw := make([]string, 0, len(files))
		for range files {
			raw = append(raw, "\x00")
		}
		// insert empty files (identity of the merge)
		ne := rapid.IntRange(0, 2).Draw(rt, "nempty")
		for i := 0; i < ne; i++ {
			at := rapid.IntRange(0, len(files)).Draw(rt, "emptyat")
			files = append(files[:at:at], append([]cfg.Config{{}}, files[at:]...)...)
			text := rapid.SampledFrom([]string{"", "{}\n", "# only a comment\n", "---\n", "\n\n"}).Draw(rt, "emptytext")
			raw = append(raw[:at:at], append([]string{text}, raw[at:]...)...)
		}
		names, patterns, nl := drawNaming(rt, len(files))
		lb := append(labels.List(), "naming:"+nl, fmt.Sprintf("empty-files:%d", ne))
		c := c09Case{Whole: conf, Files: files, Raw: raw, Names: names, Patterns: patterns, Style: drawStyle(rt), Bracket: rapid.IntRange(1, len(files)-1).Draw(rt, "bracket"), Labels: lb, Build: build}
		c09Eval(rt, c)
	})
	col.Complete()
}

var _ = strings.Contains
