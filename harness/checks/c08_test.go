//go:build verif

package checks

import (
	"bytes"
	"crypto/sha256"
	"fmt"
	"math"
	"os"
	"path/filepath"
	"strings"
	"testing"
	"time"

	"pgregory.net/rapid"

	"verifh/cfg"
	"verifh/ev"
	"verifh/gen"
	"verifh/sut"
)

type c08Case struct {
	Conf     *cfg.Config `json:"config,omitempty"` // when set, files are emitted from it and key permutations are tried
	Style    cfg.Style   `json:"style"`
	Files    []File      `json:"files,omitempty"`
	Patterns []string    `json:"patterns,omitempty"`
	Runs     int         `json:"runs"`
	Perms    int         `json:"perms"`
	Labels   []string    `json:"labels,omitempty"`
	// OutState: "" = the output path does not exist before a run; "directory", "missing-parent", "dev-full": the write
	// fails - the diagnostic it produces is part of the report and has to be the same in every run
	OutState string `json:"out_state,omitempty"`
}

func sha(b []byte) string { return fmt.Sprintf("%x", sha256.Sum256(b))[:16] }

// envVariants are environments that must not influence the result.
func envVariants(dir string) [][]string {
	base := os.Environ()
	empty := filepath.Join(dir, "emptyhome")
	_ = os.MkdirAll(empty, 0o755)
	with := func(kv ...string) []string { return append(append([]string(nil), base...), kv...) }
	return [][]string{
		base,
		with("NO_COLOR=1", "TERM=dumb"),
		with("TERM=xterm-256color", "COLORTERM=truecolor", "CLICOLOR_FORCE=0"),
		with("HOME="+empty, "XDG_CONFIG_HOME="+empty),
		with("LANG=tr_TR.UTF-8", "LC_ALL=C", "TZ=Pacific/Kiritimati"),
		with("GONTAINER_JUNK=1", "VERIF_SET=x", "APP_HOST=example", "PORT=99"),
		with("GOPATH="+empty, "GOMAXPROCS=1"),
		with("GOMAXPROCS=64", "GODEBUG=gctrace=0"),
	}
}

func c08Eval(t tb, c c08Case) {
	col := ev.Get()
	bin, err := toolBinary()
	if err != nil {
		t.Fatalf("INFRA: %v", err)
	}
	files, patterns := c.Files, c.Patterns
	if c.Conf != nil {
		text, err := cfg.Emit(*c.Conf, c.Style)
		if err != nil {
			col.Exclude("serialiser-self-check")
			return
		}
		files = []File{{Name: "gontainer.yaml", Content: text}}
	}
	spec := Spec{Files: files, Patterns: patterns}
	dir := writeSpec(spec)
	defer os.RemoveAll(dir)
	other := filepath.Join(dir, "elsewhere")
	_ = os.MkdirAll(other, 0o755)
	var abs []string
	for _, p := range spec.patterns() {
		abs = append(abs, filepath.Join(dir, p))
	}
	out := filepath.Join(dir, "out.go")
	switch c.OutState {
	case "directory":
		_ = os.MkdirAll(filepath.Join(out, "inner"), 0o755)
	case "missing-parent":
		out = filepath.Join(dir, "nope", "sub", "out.go")
	case "dev-full":
		_ = os.Symlink("/dev/full", out)
	}
	envs := envVariants(dir)
	type obs struct {
		exit         int
		stdout, file string
	}
	var first obs
	var firstStdout string
	runs := c.Runs
	if runs < 2 {
		runs = 2
	}
	for i := 0; i < runs; i++ {
		if c.OutState == "" {
			_ = os.Remove(out)
		}
		cwd := dir
		if i%2 == 1 {
			cwd = other
		}
		r := bin.Run(cwd, envs[i%len(envs)], 120*time.Second, sut.BuildArgs(abs, out, sut.Flags{})...)
		if r.TimedOut || r.Exit < 0 {
			violation(t, "crash-or-timeout", fmt.Sprintf("run %d: exit %d timedOut=%v %s", i, r.Exit, r.TimedOut, oneLine(r.Panic)), c)
			return
		}
		var fb []byte
		if c.OutState == "" { // (reading /dev/full never ends)
			fb, _ = os.ReadFile(out)
		}
		o := obs{r.Exit, sha([]byte(r.Stdout)), sha(fb)}
		if i == 0 {
			first, firstStdout = o, r.Stdout
			continue
		}
		if o != first {
			what := "the generated file"
			if o.stdout != first.stdout {
				what = "the printed report"
			}
			if o.exit != first.exit {
				what = "the exit status"
			}
			violation(t, "nondeterministic:"+what, fmt.Sprintf("run %d (environment variant %d, cwd variant %d) differs from run 0 in %s\n--- run 0 ---\n%s\n--- run %d ---\n%s", i, i%len(envs), i%2, what, tailLines(firstStdout, 14), i, tailLines(r.Stdout, 14)), c)
			return
		}
	}
	// Go randomises every single map iteration, and for a map of two entries the less likely order shows up in one
	// iteration out of eight only: many more repetitions, in-process (same inputs, same patterns)
	reps, size := 48, 0
	for _, f := range files {
		size += len(f.Content)
	}
	if size > 20<<10 {
		reps = 4
	}
	var ref0 Outcome
	for i := 0; i < reps; i++ {
		o := runInprocAbs(dir, abs, sut.Flags{})
		if i == 0 {
			ref0 = o
			continue
		}
		if o.Res.Exit != ref0.Res.Exit || o.Res.Stdout != ref0.Res.Stdout || !bytes.Equal(o.Out, ref0.Out) {
			what := "the generated file"
			if o.Res.Stdout != ref0.Res.Stdout {
				what = "the printed report"
			}
			violation(t, "nondeterministic:"+what, fmt.Sprintf("in-process repetition %d differs from repetition 0 in %s\n--- repetition 0 ---\n%s\n--- repetition %d ---\n%s", i, what, tailLines(ref0.Res.Stdout, 14), i, tailLines(o.Res.Stdout, 14)), c)
			return
		}
	}
	col.Label("repeated-runs-identical")
	// key permutations: the generated file must not change
	if c.Conf != nil && first.exit == 0 {
		for k := 0; k < c.Perms; k++ {
			st := cfg.Style{Seed: c.Style.Seed*31 + uint64(k) + 1, PermKeys: true, Flow: k%2 == 0, Quotes: k%3 == 0, Blocks: k%2 == 1}
			text, err := cfg.Emit(*c.Conf, st)
			if err != nil {
				col.Exclude("serialiser-self-check")
				continue
			}
			pf := filepath.Join(dir, fmt.Sprintf("perm%d.yaml", k))
			_ = os.WriteFile(pf, []byte(text), 0o644)
			po := filepath.Join(dir, fmt.Sprintf("perm%d.go", k))
			r := bin.Run(dir, nil, 120*time.Second, sut.BuildArgs([]string{pf}, po, sut.Flags{})...)
			fb, _ := os.ReadFile(po)
			if r.Exit != 0 || sha(fb) != first.file {
				violation(t, "key-order-dependent-output", fmt.Sprintf("permuting the keys of the YAML mappings changed the result: exit %d, file %s vs %s\n%s", r.Exit, sha(fb), first.file, oneLine(text)), c)
				return
			}
		}
		col.Label("key-permutations-identical")
	}
	multi := false
	if c.Conf != nil {
		cc := c.Conf
		multi = len(cc.Services) >= 2 || len(cc.Params) >= 2 || len(cc.Meta.Imports) >= 2 || len(cc.Meta.Functions) >= 2
		for _, s := range cc.Services {
			multi = multi || len(s.Fields) >= 2
		}
	} else {
		multi = true
	}
	col.Case(ev.Hash(c), multi && runs >= 2)
	for _, l := range c.Labels {
		col.Label(l)
	}
	col.Label(fmt.Sprintf("exit:%d", first.exit))
	col.Sample(fmt.Sprintf("exit:%d", first.exit), 2, map[string]any{"labels": c.Labels, "files": files, "patterns": patterns, "report_tail": tailLines(firstStdout, 8)})
}

func tailLines(s string, n int) string {
	b := []byte(s)
	cnt := 0
	for i := len(b) - 1; i >= 0; i-- {
		if b[i] == '\n' {
			cnt++
			if cnt > n {
				return string(b[i+1:])
			}
		}
	}
	return s
}

// multiDefectCases: several simultaneous defects of each class, hand-built.
// manyServices: n services over seven import paths first used inside the services section (a size at which a tool might
// start to work in parallel).
func manyServices(n int) string {
	var sb strings.Builder
	sb.WriteString("meta: {pkg: app}\nservices:\n")
	for i := 0; i < n; i++ {
		fmt.Fprintf(&sb, "  s%04d: {constructor: \"example.com/p%d/lib%d.New\", arguments: [%d]}\n", i, i%7, (i*5)%11, i)
	}
	return sb.String()
}

func multiDefectCases(runs int) []c08Case {
	y := func(s string) []File { return []File{{Name: "a.yaml", Content: s}} }
	return []c08Case{
		{Files: y("meta:\n  imports:\n    \"bad alias 1\": \"x y\"\n    \"bad alias 2\": \"p q\"\n    \"-a\": \"ok/path\"\n    good: \"1bad\"\n    zz: \"//\"\n  functions:\n    \"1f\": \"a..b\"\n    \"2f\": \"fx/lib.Echo\"\n    g: \"not a func\"\n    h: \"also not\"\n"), Runs: runs, Labels: []string{"multi:invalid-imports-and-functions"}},
		{Files: []File{{Name: "a.yaml", Content: "parameters: {a: 1}\n"}, {Name: "b.yaml", Content: "parameters: {b: 1}\n"}, {Name: "c.yaml", Content: "parameters: {c: 1}\n"}, {Name: "d.yaml", Content: "parameters: {d: 1}\n"}},
			Patterns: []string{"*.yaml", "a.yaml", "b.yaml", "c.yaml", "d.yaml", "[a-d].yaml"}, Runs: runs, Labels: []string{"multi:files-matched-by-several-patterns"}},
		{Files: y("parameters:\n  a: \"%b%\"\n  b: \"%a%\"\n  c: \"%d%\"\n  d: \"%c%\"\n  e: \"%e%\"\nservices:\n  s1: {constructor: NewX, arguments: [\"@s2\"]}\n  s2: {constructor: NewX, arguments: [\"@s1\", \"@s3\"]}\n  s3: {constructor: NewX, arguments: [\"@s1\"], tags: [t]}\n  s4: {constructor: NewX, arguments: [\"!tagged t\"], tags: [t]}\n"), Runs: runs, Labels: []string{"multi:cycles"}},
		{Files: y("parameters:\n  a1: \"x%a2%\"\n  a2: \"%a1%\"\n  b1: \"%b2%y\"\n  b2: \"%b1%\"\n  c1: \"%c2%\"\n  c2: \"%c1%\"\n  d1: \"%d2%\"\n  d2: \"%d1%\"\n  e1: \"%e1%\"\nservices:\n  user: {constructor: NewX, arguments: [\"%a1%\", \"%b1%\", \"%c1%\"], fields: {F: \"%d1%\", G: \"%e1%\"}, calls: [[M, [\"%b2%\", \"%a2%\"]]], tags: [t]}\n  other: {constructor: NewX, arguments: [\"%d2%\", \"%c2%\", \"@user\"]}\ndecorators:\n  - {tag: t, decorator: Dec, arguments: [\"%e1%\", \"%d1%\", \"%c1%\", \"%b1%\", \"%a1%\"]}\n"), Runs: runs, Labels: []string{"multi:independent-param-cycles-reached-from-one-service-and-decorator"}},
		{Files: y("services:\n  s1: {constructor: NewX, getter: GetX}\n  s2: {constructor: NewX, getter: GetX}\n  s3: {constructor: NewX, getter: GetX}\n  s4: {constructor: NewX, getter: GetX}\n  r1: {constructor: NewX, getter: GetY, tags: [t, t, t, u, u, u]}\n  r2: {constructor: NewX, getter: GetY, tags: [u, t, u, t]}\n  r3: {constructor: NewX, getter: GetY}\n  q1: {constructor: NewX, getter: Get}\n  q2: {constructor: NewX, getter: Get}\n  q3: {constructor: NewX, getter: MustZ}\n  q4: {constructor: NewX, getter: MustZ}\n  q5: {constructor: NewX, getter: MustZ}\n"), Runs: runs, Labels: []string{"multi:three-or-more-services-per-duplicate-getter-and-repeated-tags"}},
		// keys that a "natural" or numeric-aware comparison would treat as equal: zero padding, numbers beyond 2^64, case
		{Files: y("meta:\n  imports: {a1: \"p/a1\", a01: \"p/a01\", a001: \"p/a001\"}\nparameters:\n  p1: 1\n  p01: 2\n  p001: 3\n  p10: 4\n  p2: 5\n  id18446744073709551616: 6\n  id18446744073709551617: 7\n  id36893488147419103232: 8\n  Key: 9\n  key: 10\n  KEY: 11\nservices:\n  s7: {constructor: a1.New, getter: G7, tags: [t1, t01, t001]}\n  s07: {constructor: a01.New, getter: G07, tags: [t001, t01, t1]}\n  s007: {constructor: a001.New, getter: G007, fields: {F1: 1, F01: 2, F001: 3}}\n  S7: {constructor: a1.New2, getter: g7}\n"), Runs: runs, Labels: []string{"valid:keys-equal-under-natural-or-case-insensitive-order"}},
		{Files: y("parameters:\n  p1: \"%x1%\"\n  p01: \"%x01%\"\n  p001: \"%x001%\"\n  id18446744073709551616: \"%y%\"\n  id18446744073709551617: \"%y%\"\nservices:\n  s7: {constructor: New, arguments: [\"@g7\", \"@g07\", \"@g007\"]}\n  s07: {constructor: New, arguments: [\"@g007\", \"@g7\"]}\n  s007: {constructor: New, fields: {F1: \"@h1\", F01: \"@h01\", F001: \"%z001%\"}}\n"), Runs: runs, Labels: []string{"multi:missing-names-equal-under-natural-order"}},
		{Files: y("services:\n  s1:\n    constructor: NewX\n    tags: [{name: 5, priority: \"high\"}, {name: [a], priority: 1.5}]\n  s2:\n    constructor: NewX\n    tags: [{priority: \"x\", name: {a: 1}}]\n"), Runs: runs, Labels: []string{"multi:one-tag-object-with-two-type-defects"}},
		{Files: y("services:\n  s1:\n    constructor: NewX\n    calls: [[1, 2, 3], [M, x, y]]\n    scope: [a]\n    getter: {a: 1}\n    todo: maybe\n"), Runs: runs, Labels: []string{"multi:one-service-with-several-type-defects"}},
		{Files: y(manyServices(1100)), Runs: 4, Labels: []string{"valid:1100-services-over-many-imports"}},
		{Files: y("parameters:\n  a: \"%m1% %m2%\"\n  b: \"%m3%\"\nservices:\n  s1: {constructor: NewX, arguments: [\"@g1\", \"%m4%\", \"@g2\"], fields: {B: \"@g3\", A: \"%m5%\"}}\n  s2: {constructor: NewX, calls: [[M, [\"@g4\", \"%m6%\"]]], tags: [t]}\ndecorators:\n  - {tag: t, decorator: Dec, arguments: [\"@g5\", \"%m7%\"]}\n  - {tag: t, decorator: Dec, arguments: [\"@g6\"]}\n"), Runs: runs, Labels: []string{"multi:missing-names"}},
		{Files: y("parameters:\n  \"bad 1\": 1\n  \"bad 2\": [1]\n  ok: {a: 1}\nservices:\n  \"bad svc\": {}\n  s1: {constructor: \"not a func\", getter: MustX, tags: [t, t, \"bad tag\"], fields: {\"1a\": 1, \"2b\": [1]}, calls: [[\"M-\", [[1]]]]}\n  s2: {value: \"{}\", type: \"**\", arguments: [1]}\ndecorators:\n  - {tag: \"bad tag\", decorator: \"not a func\", arguments: [[1]]}\n  - {tag: \"\", decorator: \"\"}\n"), Runs: runs, Labels: []string{"multi:grammar"}},
		{Files: y("parameters:\n  a: \"%x(%\"\n  b: \"%unknown()%\"\n  c: \"%\"\n  d: \"%a b%\"\n  e: \"%f()% %g()%\"\n"), Runs: runs, Labels: []string{"multi:tokens"}},
		{Files: y("services:\n  s1: {constructor: NewX, arguments: [\"@\", \"!value \", \"!tagged \", \"%x(%\"], fields: {A: \"@-\", B: \"!value **\"}}\n  s2: {constructor: NewX, arguments: [\"@ \"], must_getter: true}\n"), Runs: runs, Labels: []string{"multi:argument-errors"}},
		{Files: y("services:\n  sh1: {constructor: NewX, scope: shared, arguments: [\"@c1\", \"@c2\"]}\n  sh2: {constructor: NewX, scope: shared, arguments: [\"@sh1\"]}\n  c1: {constructor: NewX, scope: contextual}\n  c2: {constructor: NewX, scope: contextual}\n"), Runs: runs, Labels: []string{"multi:scope-conflicts"}},
		{Files: []File{{Name: "a.yaml", Content: "services: [1\n"}, {Name: "b.yaml", Content: "parameters: {a: [}\n"}, {Name: "c.yaml", Content: "version: 5\n"}}, Patterns: []string{"a.yaml", "b.yaml", "c.yaml", "missing*.yaml", "["}, Runs: runs, Labels: []string{"multi:unreadable-inputs"}},
	}
}

// importHeavyConfigs: valid configurations in which every order-sensitive map has several entries and
// each entry pulls a package that has not been used before, so that any unsorted traversal changes the
// numbering of the import aliases (and therefore the bytes of the output).
func importHeavyConfigs() []cfg.Config {
	pk := []string{"fx/lib", "fx/libx", "fx/lib/sub", "fx/a/lib", "fx/b/lib", "fx/my-lib.v2", "fx/os", "fx/fmt", "fx/errors", "fx/context", "fx/reflect", "fx/strconv"}
	q := func(p string) string { return `"` + p + `"` }
	fieldsOnly := cfg.Config{Meta: cfg.Meta{Pkg: sp("app")}, Services: []cfg.Service{{Name: "s", Ctor: sp("NewObj"), Fields: []cfg.Field{
		{Name: "FieldA", Val: cfg.Str("!value " + q(pk[0]) + ".ID")}, {Name: "FieldB", Val: cfg.Str("!value " + q(pk[1]) + ".ID")}, {Name: "fieldC", Val: cfg.Str("!value " + q(pk[2]) + ".ID")}}}}}
	all := cfg.Config{Meta: cfg.Meta{Pkg: sp("app"),
		Imports:   []cfg.KV{{K: "z", V: pk[3]}, {K: "a", V: pk[4]}, {K: "m", V: pk[5]}},
		Functions: []cfg.KV{{K: "zf", V: q(pk[6]) + ".Echo"}, {K: "af", V: q(pk[7]) + ".Echo"}, {K: "mf", V: q(pk[8]) + ".Echo"}}},
		Params: []cfg.Param{{Name: "zp", Val: cfg.Str("%zf(1)%")}, {Name: "ap", Val: cfg.Str("%af(1)%")}, {Name: "mp", Val: cfg.Str("%mf(1)%")}},
		Services: []cfg.Service{
			{Name: "zs", Ctor: sp("z.NewObj"), Fields: []cfg.Field{{Name: "FieldB", Val: cfg.Str("!value " + q(pk[9]) + ".ID")}, {Name: "FieldA", Val: cfg.Str("!value " + q(pk[10]) + ".ID")}}, Tags: []cfg.Tag{{Name: "zt"}, {Name: "at"}, {Name: "mt"}}},
			{Name: "as", Ctor: sp("a.NewObj"), Args: []cfg.Val{cfg.Str("!value " + q(pk[11]) + ".ID")}, Tags: []cfg.Tag{{Name: "mt", Prio: 2}, {Name: "at", Prio: 1}}},
			{Name: "ms", Value: sp("m.GlobalObj"), Getter: sp("GetM"), Type: sp("*m.Obj")},
		},
		Decorators: []cfg.Decorator{{Tag: "zt", Fn: q(pk[0]) + ".Decorate"}, {Tag: "at", Fn: q(pk[1]) + ".Decorate"}, {Tag: "mt", Fn: q(pk[2]) + ".Decorate"}},
	}
	return []cfg.Config{fieldsOnly, all}
}

func TestC08(t *testing.T) {
	col := ev.Get()
	runs := pick(10, 24)
	perms := pick(3, 8)
	col.Note(fmt.Sprintf("Go starts the iteration of a small map at a random slot out of eight: a 2-entry order dependence shows its rarer order in 1 iteration of 8, so it escapes n repetitions with probability (7/8)^n per site; every document is run %d times as a fresh process and 48 times in-process: %.3f %%", runs, 100*math.Pow(7.0/8, float64(runs+47))))
	var rc c08Case
	if replayPayload(t, &rc) {
		c08Eval(t, rc)
		return
	}
	for _, f := range regressFiles("C08") {
		var c c08Case
		loadRegress(t, f, &c)
		c08Eval(t, c)
		col.Label("regress")
	}
	// the failure paths of the write: the diagnostic of a failed write is part of the report
	for i, st := range []string{"directory", "missing-parent", "dev-full"} {
		if ev.Mine(i + 5) {
			c08Eval(t, c08Case{Files: []File{{Name: "gontainer.yaml", Content: "parameters: {a: 1}\nservices:\n  s: {constructor: fx/lib.NewObj, arguments: [\"%a%\"]}\n"}}, Runs: 6, OutState: st, Labels: []string{"output-state:" + st}})
		}
	}
	for i, c := range multiDefectCases(runs) {
		if ev.Mine(i) {
			c08Eval(t, c)
		}
	}
	for i, c := range importHeavyConfigs() {
		if ev.Mine(i + 3) {
			conf := c
			c08Eval(t, c08Case{Conf: &conf, Runs: runs + 6, Perms: perms + 4, Labels: []string{"valid:every-map-entry-pulls-a-new-import"}})
		}
	}
	setRapidChecks(pick(24, 160))
	opts := gen.All()
	opts.PkgMain = true
	rapid.Check(t, func(rt *rapid.T) {
		if deadlinePassed() {
			rt.Skip("budget used up")
		}
		conf, labels := gen.Valid(rt, opts)
		lb := labels.List()
		k := rapid.IntRange(0, 4).Draw(rt, "defects")
		for i := 0; i < k; i++ {
			lbl := fmt.Sprintf("d%d", i)
			switch rapid.IntRange(0, 4).Draw(rt, lbl) {
			case 0:
				lb = append(lb, gen.InjectDanglingParam(rt, &conf, lbl))
			case 1:
				lb = append(lb, gen.InjectDanglingService(rt, &conf, lbl))
			case 2:
				lb = append(lb, gen.InjectCycle(rt, &conf, lbl))
			case 3:
				lb = append(lb, gen.InjectGrammarDefect(rt, &conf, lbl))
			case 4:
				lb = append(lb, gen.InjectScopeConflict(rt, &conf, lbl))
			}
		}
		if sccGuard(conf, 7) {
			col.Exclude("scc-guard")
			return
		}
		c08Eval(rt, c08Case{Conf: &conf, Style: drawStyle(rt), Runs: runs, Perms: perms, Labels: lb})
	})
	if !deadlinePassed() {
		col.Complete()
	}
}
