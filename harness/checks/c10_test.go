//go:build verif

package checks

import (
	"bytes"
	"fmt"
	"go/parser"
	"go/token"
	"os"
	"path/filepath"
	"strings"
	"syscall"
	"testing"
	"time"

	"pgregory.net/rapid"

	"verifh/cfg"
	"verifh/ev"
	"verifh/gen"
	"verifh/ref"
	"verifh/sut"
)

const c10BuildVersion = "1.2.3"

type c10Cell struct {
	Class    string    `json:"class"`
	YAML     string    `json:"yaml,omitempty"`  // main input (class-specific)
	YAML2    string    `json:"yaml2,omitempty"` // optional second file
	Flags    sut.Flags `json:"flags"`           // Quiet is ignored here: every cell runs with and without it
	PreState string    `json:"pre_state"`       // absent, existing, directory, missing-parent, dev-full
	Fault    string    `json:"input_fault"`     // none, missing-file, directory-as-input, empty-glob, invalid-glob
	WantOK   bool      `json:"want_ok"`         // the configuration class itself is acceptable under these flags
	// Companion adds a second, valid and self-sufficient input file next to the main one: "" (none), "before", "after"
	// (own -i pattern before/after the main one) or "glob" (one pattern matching both). It never changes the expected outcome.
	Companion string `json:"companion,omitempty"`
}

var c10Classes = []struct {
	name string
	yaml string
	ok   func(f sut.Flags) bool
}{
	{"valid", "meta: {pkg: app}\nparameters: {p: 1}\nservices:\n  s: {constructor: fx/lib.NewObj, arguments: [\"%p%\"], getter: GetS}\n", func(sut.Flags) bool { return true }},
	{"yaml-syntax", "services: [1\n  x: {\n", func(sut.Flags) bool { return false }},
	{"yaml-type", "services:\n  s:\n    constructor: [a]\n    tags: 5\n", func(sut.Flags) bool { return false }},
	{"grammar", "services:\n  \"bad name\": {constructor: \"not a func\", getter: MustX}\n  s2: {}\n", func(sut.Flags) bool { return false }},
	{"token", "parameters:\n  a: \"%x(%\"\n  b: \"100%\"\n", func(sut.Flags) bool { return false }},
	{"missing-param", "parameters: {a: \"%nope%\"}\nservices:\n  s: {constructor: fx/lib.NewObj, arguments: [\"%gone%\"]}\n", func(f sut.Flags) bool { return f.IgnoreMissingParams }},
	{"missing-service", "services:\n  s: {constructor: fx/lib.NewObj, arguments: [\"@gone\"]}\n", func(f sut.Flags) bool { return f.IgnoreMissingServices }},
	{"missing-both", "services:\n  s: {constructor: fx/lib.NewObj, arguments: [\"@gone\", \"%nope%\"]}\n", func(f sut.Flags) bool { return f.IgnoreMissingServices && f.IgnoreMissingParams }},
	{"cycle", "parameters: {a: \"%b%\", b: \"%a%\"}\nservices:\n  s: {constructor: fx/lib.NewObj, arguments: [\"@s\"]}\n", func(sut.Flags) bool { return false }},
	{"scope", "services:\n  a: {constructor: fx/lib.NewObj, scope: shared, arguments: [\"@b\"]}\n  b: {constructor: fx/lib.NewObj, scope: contextual}\n", func(sut.Flags) bool { return false }},
	{"version-mismatch", "version: 2.0.0\nparameters: {p: 1}\n", func(sut.Flags) bool { return false }},
	{"version-match", "version: 1.1.9\nparameters: {p: 1}\n", func(sut.Flags) bool { return true }},
	{"format-error", "parameters:\n  a: '%env(\")%'\n  b: '%env(1 2)%'\n", func(f sut.Flags) bool { return f.Stub /* the stub never emits parameter code */ }},
	{"two-patterns", "parameters: {p: 1}\n", func(sut.Flags) bool { return false }},
	{"two-patterns-dot-slash", "parameters: {p: 1}\n", func(sut.Flags) bool { return false }},
	{"two-patterns-dotdot", "parameters: {p: 1}\n", func(sut.Flags) bool { return false }},
	{"two-patterns-double-slash", "parameters: {p: 1}\n", func(sut.Flags) bool { return false }},
	{"nothing-processed", "", func(sut.Flags) bool { return false }},
	// the number of diagnostics at the boundaries of an 8-bit exit status
	{"missing-services-255", manyMissing(255), func(f sut.Flags) bool { return f.IgnoreMissingServices }},
	{"missing-services-256", manyMissing(256), func(f sut.Flags) bool { return f.IgnoreMissingServices }},
	{"missing-services-512", manyMissing(512), func(f sut.Flags) bool { return f.IgnoreMissingServices }},
}

// manyMissing: one service referencing n undefined services (n missing-service diagnostics).
func manyMissing(n int) string {
	var sb strings.Builder
	sb.WriteString("services:\n  s:\n    constructor: fx/lib.NewObj\n    arguments:\n")
	for i := 0; i < n; i++ {
		fmt.Fprintf(&sb, "      - \"@gone%d\"\n", i)
	}
	return sb.String()
}

const c10Companion = "parameters: {companionOnly: 7}\nservices:\n  companionSvc: {constructor: fx/lib.NewObj, arguments: [\"%companionOnly%\"], getter: GetCompanionSvc}\n"

var c10Companions = []string{"", "before", "after", "glob", "comma-in-name", "quote-in-name", "long-multibyte-name"}

var c10PreStates = []string{"absent", "existing", "existing-long", "same-plus-suffix", "same-truncated", "directory", "missing-parent", "dev-full"}
var c10Faults = []string{"none", "missing-file", "directory-as-input", "empty-glob", "invalid-glob"}

var sentinel = []byte("// SENTINEL: this file existed before the run\npackage old\n")

func c10Eval(t tb, c c10Cell) {
	if c.Fault == "main-through-named-pipe" {
		c10Pipe(t, c.Class, c.YAML, c.Flags)
		return
	}
	if n, ok := strings.CutPrefix(c.Fault, "output-name:"); ok {
		c10OutName(t, n, c.Flags)
		return
	}
	col := ev.Get()
	bin, err := sut.BuildBinary(ev.RepoDir(), filepath.Join(ev.ScratchDir(), "bin"), "v"+c10BuildVersion)
	if err != nil {
		t.Fatalf("INFRA: %v", err)
	}
	dir := scratch("c10")
	defer os.RemoveAll(dir)
	var pats []string
	if c.Class != "nothing-processed" {
		_ = os.WriteFile(filepath.Join(dir, "main.yaml"), []byte(c.YAML), 0o644)
		pats = append(pats, "main.yaml")
	}
	if c.Companion != "" && c.Class != "nothing-processed" {
		name := "m-companion.yaml"
		switch c.Companion {
		case "comma-in-name": // legal file names that a careless parser of the -i values would split, reject or mis-measure
			name = "m,comp,anion.yaml"
		case "quote-in-name":
			name = `m"comp anion'.yaml`
		case "long-multibyte-name": // 70 bytes, 41 characters
			name = "конфигурация-сервисов-приложения.yaml"
		}
		_ = os.WriteFile(filepath.Join(dir, name), []byte(c10Companion), 0o644)
		switch c.Companion {
		case "before":
			pats = append([]string{name}, pats...)
		case "glob":
			pats[0] = "m*.yaml"
		default:
			pats = append(pats, name)
		}
	}
	if c.YAML2 != "" {
		_ = os.WriteFile(filepath.Join(dir, "second.yaml"), []byte(c.YAML2), 0o644)
		pats = append(pats, "second.yaml")
	}
	switch c.Class {
	case "two-patterns":
		pats = append(pats, "ma*.yaml")
	case "two-patterns-dot-slash": // the same file under two spellings: equal cleaned paths
		pats = append(pats, "./main.yaml")
	case "two-patterns-dotdot":
		_ = os.MkdirAll(filepath.Join(dir, "sub"), 0o755)
		pats = append([]string{"sub/../main.yaml"}, pats...)
	case "two-patterns-double-slash":
		pats = []string{".//main.yaml", "*.yaml"}
	}
	faultFatal := false
	switch c.Fault {
	case "missing-file":
		pats = append([]string{"does-not-exist.yaml"}, pats...)
	case "directory-as-input":
		_ = os.MkdirAll(filepath.Join(dir, "adir.yaml"), 0o755)
		pats = append(pats, "adir.yaml")
		faultFatal = true
	case "empty-glob":
		pats = append(pats, "nomatch*.yaml")
	case "invalid-glob":
		pats = append(pats, "[")
		faultFatal = true
	}
	if len(pats) == 0 {
		pats = []string{"nothing-here*.yaml"}
	}
	// output pre-state
	out := filepath.Join(dir, "out", "gen.go")
	_ = os.MkdirAll(filepath.Join(dir, "out"), 0o755)
	writable := true
	switch c.PreState {
	case "existing":
		_ = os.WriteFile(out, sentinel, 0o640)
		old := time.Date(2001, 2, 3, 4, 5, 6, 0, time.UTC)
		_ = os.Chtimes(out, old, old)
	case "same-plus-suffix", "same-truncated":
		// the file already holds what this run would generate, followed by more text / cut in the middle
		// (falls back to the sentinel when the run fails anyway)
		content := sentinel
		probe := filepath.Join(dir, "probe.go")
		pf := c.Flags
		pf.Quiet = true
		if pr := bin.Run(dir, nil, 120*time.Second, sut.BuildArgs(pats, probe, pf)...); pr.Exit == 0 {
			if b, err := os.ReadFile(probe); err == nil && len(b) > 0 {
				if c.PreState == "same-plus-suffix" {
					content = append(b, []byte("\n// appended by hand\n")...)
				} else {
					content = b[:len(b)/2]
				}
			}
		}
		_ = os.Remove(probe)
		_ = os.WriteFile(out, content, 0o644)
	case "existing-long": // longer than anything the tool generates for these inputs: a write that does not truncate leaves a tail
		_ = os.WriteFile(out, bytes.Repeat(sentinel, 4000), 0o600)
	case "directory":
		_ = os.MkdirAll(filepath.Join(out, "inner"), 0o755)
		_ = os.WriteFile(filepath.Join(out, "inner", "keep.txt"), sentinel, 0o644)
		writable = false
	case "missing-parent":
		out = filepath.Join(dir, "nope", "sub", "gen.go")
		writable = false
	case "dev-full":
		if err := os.Symlink("/dev/full", out); err != nil {
			t.Fatalf("INFRA: symlink: %v", err)
		}
		writable = false
	}
	wantOK := c.WantOK && !faultFatal && writable
	flags := c.Flags
	flags.Quiet = false
	pre := sut.StatPath(out)
	preInner := sut.StatPath(filepath.Join(out, "inner", "keep.txt"))
	r := bin.Run(dir, nil, 120*time.Second, sut.BuildArgs(pats, out, flags)...)
	post := sut.StatPath(out)
	col.Case(ev.Hash(c), !wantOK || strings.HasPrefix(c.PreState, "existing") || strings.HasPrefix(c.PreState, "same"))
	col.Label("class:" + c.Class)
	col.Label("pre-state:" + c.PreState)
	col.Label("input-fault:" + c.Fault)
	col.Label("companion-file:" + c.Companion)
	col.Label(fmt.Sprintf("expect-ok:%v", wantOK))
	fail := func(key, what string) {
		violation(t, key, fmt.Sprintf("[class=%s flags=%q pre=%s fault=%s companion=%q] %s\nstdout tail:\n%s", c.Class, flags.String(), c.PreState, c.Fault, c.Companion, what, tailLines(r.Stdout, 10)), c)
	}
	// any non-zero status is a failure status for this property; a crash is recognised by its trace, not by its number
	if r.TimedOut || r.Exit < 0 || strings.Contains(r.Stderr, "panic:") || strings.Contains(r.Stderr, "goroutine ") {
		fail("crash-or-timeout", fmt.Sprintf("exit status %d (timed out: %v) %s", r.Exit, r.TimedOut, oneLine(r.Stderr)))
		return
	}
	if r.Exit > 1 {
		col.Label(fmt.Sprintf("exit-status:%d", r.Exit))
	}
	if (r.Exit == 0) != wantOK {
		fail(fmt.Sprintf("exit-%d-expected-ok-%v", r.Exit, wantOK), fmt.Sprintf("exit status %d, expected success=%v", r.Exit, wantOK))
		return
	}
	rep := sut.ParseReport(r.Stdout)
	var genBytes []byte
	if r.Exit == 0 {
		b, err := os.ReadFile(out)
		if err != nil || len(b) == 0 {
			fail("exit0-without-output", fmt.Sprintf("exit 0 but the output file is missing or empty (%v)", err))
			return
		}
		genBytes = b
		if c.Companion != "" && c.Class != "nothing-processed" && !bytes.Contains(b, []byte("GetCompanionSvc")) {
			fail("exit0-incomplete-output", "exit 0 but the output lacks the getter of the service defined in the companion input file")
			return
		}
		if _, err := parser.ParseFile(token.NewFileSet(), "gen.go", b, parser.AllErrors); err != nil {
			fail("exit0-incomplete-output", "exit 0 but the output does not parse as a Go file: "+err.Error())
			return
		}
		// equals a reference run to a fresh path
		fresh := filepath.Join(dir, "fresh.go")
		rr := bin.Run(dir, nil, 120*time.Second, sut.BuildArgs(pats, fresh, flags)...)
		fb, _ := os.ReadFile(fresh)
		if rr.Exit != 0 || !bytes.Equal(fb, b) {
			fail("output-depends-on-pre-state", "the written file differs from a run to a fresh path")
			return
		}
		if rep.HasErrors || len(rep.Errors) > 0 {
			fail("exit0-with-error-list", "exit 0 but an error list was printed")
			return
		}
		_ = os.Remove(fresh)
	} else {
		if !pre.Equal(post) {
			fail("failed-run-touched-output", fmt.Sprintf("a failing run changed the -o path: before %+v after %+v", brief(pre), brief(post)))
			return
		}
		if c.PreState == "directory" && !preInner.Equal(sut.StatPath(filepath.Join(out, "inner", "keep.txt"))) {
			fail("failed-run-touched-output", "a failing run changed the contents of the directory at the -o path")
			return
		}
		if !rep.HasErrors || len(rep.Errors) == 0 {
			fail("failure-without-error-list", "exit 1 but no numbered error list was printed")
			return
		}
		for i, k := range rep.Numbering {
			if k != i+1 {
				fail("error-list-numbering", fmt.Sprintf("the error list is not numbered 1..k: %v", rep.Numbering))
				return
			}
		}
		top, ok := rep.FailingTop()
		if !ok {
			fail("no-failing-step", "exit 1 but no step is marked as failed")
			return
		}
		if top.Count != len(rep.Errors) {
			fail("error-count-mismatch", fmt.Sprintf("step %q reports %d errors, the list has %d items", top.Name, top.Count, len(rep.Errors)))
			return
		}
	}
	// --quiet: nothing printed, same status and file effects
	q := flags
	q.Quiet = true
	// restore the pre-state for the quiet run
	switch c.PreState {
	case "absent":
		_ = os.Remove(out)
	case "existing":
		_ = os.WriteFile(out, sentinel, 0o640)
		old := time.Date(2001, 2, 3, 4, 5, 6, 0, time.UTC)
		_ = os.Chtimes(out, old, old)
	}
	pre2 := sut.StatPath(out)
	rq := bin.Run(dir, nil, 120*time.Second, sut.BuildArgs(pats, out, q)...)
	post2 := sut.StatPath(out)
	if rq.Stdout != "" || rq.Stderr != "" {
		fail("quiet-prints", fmt.Sprintf("--quiet printed %d bytes on stdout and %d on stderr: %q", len(rq.Stdout), len(rq.Stderr), oneLine(rq.Stdout+rq.Stderr)))
		return
	}
	if rq.Exit != r.Exit {
		fail("quiet-changes-status", fmt.Sprintf("exit status %d with --quiet, %d without", rq.Exit, r.Exit))
		return
	}
	if r.Exit == 0 {
		b, _ := os.ReadFile(out)
		if !bytes.Equal(b, genBytes) {
			fail("quiet-changes-output", "--quiet changed the generated file")
			return
		}
	} else if !pre2.Equal(post2) {
		fail("quiet-failed-run-touched-output", "a failing --quiet run changed the -o path")
		return
	}
	col.Label("cell-held")
	col.Sample("class:"+c.Class, 1, map[string]any{"cell": c, "exit": r.Exit, "report_tail": tailLines(r.Stdout, 6)})
}

func brief(s sut.FileState) string {
	return fmt.Sprintf("{exists:%v dir:%v mode:%v size:%d mtime:%s link:%q sha:%s}", s.Exists, s.IsDir, s.Mode, s.Size, s.ModTime.UTC().Format(time.RFC3339), s.Link, sha([]byte(s.Content)))
}

// c10OutName: the file written is the file named by -o, byte for byte in its name.
func c10OutName(t tb, name string, f sut.Flags) bool {
	col := ev.Get()
	bin, err := sut.BuildBinary(ev.RepoDir(), filepath.Join(ev.ScratchDir(), "bin"), "v"+c10BuildVersion)
	if err != nil {
		t.Fatalf("INFRA: %v", err)
	}
	dir := scratch("c10out")
	defer os.RemoveAll(dir)
	_ = os.WriteFile(filepath.Join(dir, "main.yaml"), []byte(c10Classes[0].yaml), 0o644)
	out := filepath.Join("o", name)
	_ = os.MkdirAll(filepath.Join(dir, filepath.Dir(out)), 0o755)
	before, _ := os.ReadDir(filepath.Join(dir, filepath.Dir(out)))
	r := bin.Run(dir, nil, 60*time.Second, sut.BuildArgs([]string{"main.yaml"}, out, f)...)
	after, _ := os.ReadDir(filepath.Join(dir, filepath.Dir(out)))
	col.Case(ev.HashStr("out-name", name), true)
	col.Label("output-name-with-white-space")
	var created []string
	for _, e := range after {
		known := false
		for _, b := range before {
			known = known || b.Name() == e.Name()
		}
		if !known {
			created = append(created, e.Name())
		}
	}
	b, rerr := os.ReadFile(filepath.Join(dir, out))
	cell := c10Cell{Class: "valid", YAML: c10Classes[0].yaml, Flags: f, Fault: "output-name:" + name}
	if r.Exit != 0 || rerr != nil || len(b) == 0 || len(created) != 1 || created[0] != filepath.Base(out) {
		violation(t, "output-written-under-another-name", fmt.Sprintf("-o %q: exit %d, the named file readable: %v, entries created in its directory: %q", out, r.Exit, rerr == nil, created), cell)
		return false
	}
	return true
}

// c10Pipe feeds one configuration through a named pipe and compares status and output with the regular-file run.
func c10Pipe(t tb, class, yaml string, f sut.Flags) bool {
	col := ev.Get()
	bin, err := sut.BuildBinary(ev.RepoDir(), filepath.Join(ev.ScratchDir(), "bin"), "v"+c10BuildVersion)
	if err != nil {
		t.Fatalf("INFRA: %v", err)
	}
	dir := scratch("c10pipe")
	defer os.RemoveAll(dir)
	_ = os.WriteFile(filepath.Join(dir, "regular.yaml"), []byte(yaml), 0o644)
	ref := bin.Run(dir, nil, 60*time.Second, sut.BuildArgs([]string{"regular.yaml"}, "ref.go", f)...)
	refOut, _ := os.ReadFile(filepath.Join(dir, "ref.go"))
	fifo := filepath.Join(dir, "piped.yaml")
	if err := syscall.Mkfifo(fifo, 0o644); err != nil {
		col.Exclude("mkfifo-not-available")
		return true
	}
	done := make(chan struct{})
	go func() {
		defer close(done)
		w, err := os.OpenFile(fifo, os.O_WRONLY, 0) // blocks until the tool opens the pipe
		if err != nil {
			return
		}
		_, _ = w.Write([]byte(yaml))
		_ = w.Close()
	}()
	r := bin.Run(dir, nil, 60*time.Second, sut.BuildArgs([]string{"piped.yaml"}, "out.go", f)...)
	// release the writer if the tool never opened the pipe
	if rd, err := os.OpenFile(fifo, os.O_RDONLY|syscall.O_NONBLOCK, 0); err == nil {
		select {
		case <-done:
		case <-time.After(2 * time.Second):
		}
		_ = rd.Close()
	}
	out, _ := os.ReadFile(filepath.Join(dir, "out.go"))
	col.Case(ev.HashStr("pipe", class, fmt.Sprint(f.Quiet)), true)
	col.Label("input-through-named-pipe")
	cell := c10Cell{Class: class, YAML: yaml, Flags: f, Fault: "main-through-named-pipe"}
	// the file name appears in the report: compare the decision and the generated bytes, not the text
	if r.TimedOut || (r.Exit == 0) != (ref.Exit == 0) || !bytes.Equal(out, refOut) {
		violation(t, "pipe-differs-from-regular-file", fmt.Sprintf("[class=%s flags=%q] through a named pipe: exit %d, %d bytes written, timed out %v; as a regular file: exit %d, %d bytes\nstdout tail:\n%s", class, f.String(), r.Exit, len(out), r.TimedOut, ref.Exit, len(refOut), tailLines(r.Stdout, 8)), cell)
		return false
	}
	return true
}

func TestC10(t *testing.T) {
	col := ev.Get()
	var rc c10Cell
	if replayPayload(t, &rc) {
		c10Eval(t, rc)
		return
	}
	for _, f := range regressFiles("C10") {
		var c c10Cell
		loadRegress(t, f, &c)
		c10Eval(t, c)
		col.Label("regress")
	}
	// the full fault matrix
	idx := 0
	for _, cl := range c10Classes {
		for fb := 0; fb < 8; fb++ {
			f := sut.Flags{Stub: fb&1 != 0, IgnoreMissingParams: fb&2 != 0, IgnoreMissingServices: fb&4 != 0}
			for _, ps := range c10PreStates {
				for _, fault := range c10Faults {
					for _, comp := range c10Companions {
						if comp != "" && cl.name == "nothing-processed" {
							continue
						}
						idx++
						if !ev.Mine(idx) {
							continue
						}
						if strings.HasSuffix(comp, "-name") && !ev.Thorough() && (idx/16+ev.Seed())%3 != 0 {
							continue // quick tier: a seed-dependent third of the file-name variants
						}
						f.Spelling = idx % 4 // the switches written bare / explicitly / repeated / in front
						c10Eval(t, c10Cell{Class: cl.name, YAML: cl.yaml, Flags: f, PreState: ps, Fault: fault, WantOK: cl.ok(f), Companion: comp})
						if deadlinePassed() {
							return
						}
					}
				}
			}
		}
	}
	col.Exhaustive(fmt.Sprintf("full matrix: %d configuration classes x 8 flag subsets {--stub, --ignore-missing-params, --ignore-missing-services} x 8 output pre-states x 5 input faults x 7 companion-file arrangements (none / a valid second file before, after, or matched by the same glob / named with commas, with quotation marks, with 41 multi-byte characters), every cell with and without --quiet", len(c10Classes)))

	// inputs that are no regular files: the same configuration through a named pipe (size 0 as far as stat knows) must
	// behave like the regular file
	for i, cl := range c10Classes {
		if cl.yaml == "" || strings.HasPrefix(cl.name, "two-patterns") || strings.HasPrefix(cl.name, "missing-services-") {
			continue
		}
		idx++
		if !ev.Mine(idx) {
			continue
		}
		f := sut.Flags{Quiet: i%2 == 1}
		if !c10Pipe(t, cl.name, cl.yaml, f) {
			return
		}
	}

	// output paths whose names begin or end with white space are names like any other
	for i, name := range []string{"gen.go ", " gen.go", "gen.go\t", "\u00a0gen.go", "gen.go\n", "sub dir /gen.go", " "} {
		idx++
		if !ev.Mine(idx) {
			continue
		}
		if !c10OutName(t, name, sut.Flags{Quiet: i%2 == 1}) {
			return
		}
	}

	// random configurations inside random cells
	setRapidChecks(pick(25, 2000))
	opts := gen.All()
	opts.PkgMain = true
	rapid.Check(t, func(rt *rapid.T) {
		if deadlinePassed() {
			rt.Skip("budget used up")
		}
		conf, _ := gen.Valid(rt, opts)
		k := rapid.IntRange(0, 2).Draw(rt, "defects")
		for i := 0; i < k; i++ {
			lbl := fmt.Sprintf("d%d", i)
			switch rapid.IntRange(0, 4).Draw(rt, lbl) {
			case 0:
				gen.InjectDanglingParam(rt, &conf, lbl)
			case 1:
				gen.InjectDanglingService(rt, &conf, lbl)
			case 2:
				gen.InjectCycle(rt, &conf, lbl)
			case 3:
				gen.InjectGrammarDefect(rt, &conf, lbl)
			case 4:
				gen.InjectScopeConflict(rt, &conf, lbl)
			}
		}
		if sccGuard(conf, 7) {
			col.Exclude("scc-guard")
			return
		}
		text, err := cfg.Emit(conf, drawStyle(rt))
		if err != nil {
			col.Exclude("serialiser-self-check")
			return
		}
		f := sut.Flags{Stub: rapid.Bool().Draw(rt, "stub"), IgnoreMissingParams: rapid.Bool().Draw(rt, "ignp"), IgnoreMissingServices: rapid.Bool().Draw(rt, "igns"), Spelling: rapid.IntRange(0, 3).Draw(rt, "spelling")}
		a := ref.Analyse(conf)
		c := c10Cell{Class: "generated", YAML: text, Flags: f,
			PreState: rapid.SampledFrom(c10PreStates).Draw(rt, "pre"), Fault: rapid.SampledFrom(c10Faults).Draw(rt, "fault"),
			WantOK:    a.Stage(f.IgnoreMissingParams, f.IgnoreMissingServices) == "accept",
			Companion: rapid.SampledFrom(c10Companions).Draw(rt, "companion")}
		c10Eval(rt, c)
	})
	if !deadlinePassed() {
		col.Complete()
	}
}

var _ = strings.Contains
