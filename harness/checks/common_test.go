//go:build verif

package checks

import (
	"encoding/json"
	"flag"
	"fmt"
	"os"
	"path/filepath"
	"strconv"
	"strings"
	"sync/atomic"
	"testing"
	"time"

	"pgregory.net/rapid"

	"verifh/ev"
)

func TestMain(m *testing.M) {
	flag.Parse()
	c := ev.Get()
	code := m.Run()
	c.Flush()
	os.Exit(code)
}

// tb is the subset of testing.TB / *rapid.T the checks need.
type tb interface {
	Helper()
	Fatalf(format string, args ...any)
	Logf(format string, args ...any)
}

// violation reports a violation unless key names an open known finding.
// It returns true if the caller should go on (known finding), otherwise it fails t.
func violation(t tb, key, what string, replay any) bool {
	t.Helper()
	c := ev.Get()
	if c.IsKnown(key, what) {
		return true
	}
	if os.Getenv("VERIF_KEEPGOING") != "" { // development aid: list every distinct class, never used by registered commands
		if !seenKeys[key] {
			seenKeys[key] = true
			fmt.Printf("KEEPGOING violation key=%s :: %s\n", key, what)
		}
		return true
	}
	p := c.RecordViolation(key, what, replay)
	t.Fatalf("VIOLATION key=%s: %s (replay written to %s)", key, what, p)
	return false
}

// pick returns q in the quick tier and th in the thorough tier.
func pick(q, th int) int {
	if ev.Thorough() {
		return th
	}
	return q
}

// setRapidChecks sets the number of cases of the following rapid.Check calls.
func setRapidChecks(n int) {
	if err := flag.Set("rapid.checks", strconv.Itoa(n)); err != nil {
		panic(err)
	}
}

var seenKeys = map[string]bool{}

var scratchSeq int64

// scratch returns a fresh directory below this shard's scratch root.
func scratch(prefix string) string {
	n := atomic.AddInt64(&scratchSeq, 1)
	d := filepath.Join(ev.ScratchDir(), fmt.Sprintf("%s-%d-%d", prefix, os.Getpid(), n)) // the pid keeps fuzz worker processes apart
	if err := os.MkdirAll(d, 0o755); err != nil {
		panic(err)
	}
	return d
}

// deadlinePassed reports whether the driver's budget for this run is used up; a
// check that stops early because of it does not call Complete(), which makes the
// driver report "inconclusive" rather than a verdict.
func deadlinePassed() bool {
	v := os.Getenv("VERIF_DEADLINE")
	if v == "" {
		return false
	}
	n, err := strconv.ParseInt(v, 10, 64)
	if err != nil {
		return false
	}
	return time.Now().Unix() > n
}

// replayFile returns the replay payload if this process is a replay run.
func replayPayload(t *testing.T, into any) bool {
	p := os.Getenv("VERIF_REPLAY")
	if p == "" {
		return false
	}
	loadRegress(t, p, into)
	ev.Get().Complete() // a replay run has no budget to complete
	return true
}

// regressFiles lists the committed regression cases of a property.
func regressFiles(id string) []string {
	m, _ := filepath.Glob(filepath.Join(ev.VerifDir(), "regress", id, "*.json"))
	if os.Getenv("VERIF_NO_SEED_REGRESS") != "" {
		// sensitivity runs (tools/rerun_seeds.sh, tools/try_seed.sh) measure the generators, not the stored replays of the seeded changes
		var keep []string
		for _, f := range m {
			if !strings.HasPrefix(filepath.Base(f), "seed-") {
				keep = append(keep, f)
			}
		}
		return keep
	}
	return m
}

func loadRegress(t *testing.T, path string, into any) {
	b, err := os.ReadFile(path)
	if err != nil {
		t.Fatalf("regress: %v", err)
	}
	var v struct {
		Replay json.RawMessage `json:"replay"`
	}
	if err := json.Unmarshal(b, &v); err != nil || v.Replay == nil {
		// plain payload
		if err := json.Unmarshal(b, into); err != nil {
			t.Fatalf("regress %s: %v", path, err)
		}
		return
	}
	if err := json.Unmarshal(v.Replay, into); err != nil {
		t.Fatalf("regress %s: %v", path, err)
	}
}

// payloadHas reports whether the stored case at path (replay or regression file) has the given top-level key:
// checks with several payload kinds dispatch on it.
func payloadHas(t *testing.T, path, key string) bool {
	var m map[string]json.RawMessage
	loadRegress(t, path, &m)
	_, ok := m[key]
	return ok
}

// storedKey returns the violation key recorded with a stored case ("" for plain payloads).
func storedKey(path string) string {
	var v struct {
		Key string `json:"key"`
	}
	if b, err := os.ReadFile(path); err == nil {
		json.Unmarshal(b, &v)
	}
	return v.Key
}

var _ = rapid.Check
