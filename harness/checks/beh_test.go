//go:build verif

package checks

import (
	"fmt"
	"sort"
	"strings"

	"pgregory.net/rapid"

	"verifh/cfg"
	"verifh/ev"
	"verifh/fx"
	"verifh/gen"
	"verifh/ref"
	"verifh/sut"
)

func init() {
	for _, l := range fx.Libs {
		ref.PkgNames[l.Path] = l.Name
	}
}

// bij is the bijection between the model's symbolic identities and instance serials.
type bij struct {
	e2s map[string]int64
	s2e map[int64]string
}

func newBij() *bij { return &bij{e2s: map[string]int64{}, s2e: map[int64]string{}} }

func (b *bij) bind(id string, serial int64) error {
	if id == "" {
		return nil
	}
	if s, ok := b.e2s[id]; ok {
		if s != serial {
			return fmt.Errorf("identity: the model says this is the same instance as serial %d (%s), observed serial %d", s, id, serial)
		}
		return nil
	}
	if e, ok := b.s2e[serial]; ok {
		return fmt.Errorf("identity: the model says this is a new instance (%s), observed the instance already seen as %s (serial %d)", id, e, serial)
	}
	b.e2s[id] = serial
	b.s2e[serial] = id
	return nil
}

func matchList(path string, exp []ref.MV, got []fx.V, b *bij) error {
	if len(exp) != len(got) {
		return fmt.Errorf("%s: expected %d elements, observed %d", path, len(exp), len(got))
	}
	for i := range exp {
		if err := matchV(fmt.Sprintf("%s[%d]", path, i), exp[i], got[i], b); err != nil {
			return err
		}
	}
	return nil
}

// matchV compares a predicted description with an observed one.
func matchV(path string, exp ref.MV, got fx.V, b *bij) error {
	if exp.C != got.C {
		return fmt.Errorf("%s: container-ness differs: expected %v, observed %v (%s)", path, exp.C, got.C, got.T)
	}
	if exp.T != got.T {
		return fmt.Errorf("%s: expected type %s, observed %s (value %s)", path, exp.T, got.T, got.S)
	}
	if exp.C {
		return nil
	}
	if exp.O == nil {
		if got.O != nil {
			return fmt.Errorf("%s: expected scalar %s %s, observed an object", path, exp.T, exp.S)
		}
		if exp.IsList || got.L != nil {
			return matchList(path, exp.L, got.L, b)
		}
		if exp.S != got.S {
			return fmt.Errorf("%s: expected %s %s, observed %s", path, exp.T, exp.S, got.S)
		}
		return nil
	}
	if got.O == nil {
		return fmt.Errorf("%s: expected object %s/%s, observed %s %s", path, exp.O.Pkg, exp.O.Origin, got.T, got.S)
	}
	e, g := exp.O, got.O
	if e.Pkg != g.Pkg {
		return fmt.Errorf("%s: object comes from package %q, expected %q", path, g.Pkg, e.Pkg)
	}
	if e.Kind != g.Kind || e.Origin != g.Origin {
		return fmt.Errorf("%s: expected %s created by %s, observed %s created by %s", path, e.Kind, e.Origin, g.Kind, g.Origin)
	}
	if err := b.bind(e.ID, g.Serial); err != nil {
		return fmt.Errorf("%s: %v", path, err)
	}
	if err := matchList(path+".args", e.Args, g.Args, b); err != nil {
		return err
	}
	if len(e.Fields) != len(g.Fields) {
		return fmt.Errorf("%s: expected fields %v, observed %v", path, keysMV(e.Fields), fx.SortedKeys(g.Fields))
	}
	for _, k := range keysMV(e.Fields) {
		gv, ok := g.Fields[k]
		if !ok {
			return fmt.Errorf("%s: field %s not set", path, k)
		}
		if err := matchV(path+"."+k, e.Fields[k], gv, b); err != nil {
			return err
		}
	}
	if len(e.Log) != len(g.Log) {
		return fmt.Errorf("%s: expected %d recorded calls, observed %d", path, len(e.Log), len(g.Log))
	}
	for i := range e.Log {
		if e.Log[i].M != g.Log[i].M {
			return fmt.Errorf("%s: call #%d is %s, expected %s", path, i, g.Log[i].M, e.Log[i].M)
		}
		if err := matchList(fmt.Sprintf("%s.%s#%d", path, e.Log[i].M, i), e.Log[i].Args, g.Log[i].Args, b); err != nil {
			return err
		}
	}
	if (e.Parent == nil) != (g.Parent == nil) {
		return fmt.Errorf("%s: parent link: expected %v, observed %v", path, e.Parent != nil, g.Parent != nil)
	}
	if e.Parent != nil {
		return matchV(path+".parent", *e.Parent, *g.Parent, b)
	}
	return nil
}

func keysMV(m map[string]ref.MV) []string {
	ks := make([]string, 0, len(m))
	for k := range m {
		ks = append(ks, k)
	}
	sort.Strings(ks)
	return ks
}

// modelOp converts a probe operation into the model's operation.
func modelOp(op fx.Op) ref.ProbeOp {
	m := ref.ProbeOp{Op: op.Op, ID: op.ID, Ctx: op.Ctx}
	if op.Val != nil {
		switch op.Op {
		case "overrideParam":
			v := litToVal(*op.Val)
			m.Val = &v
		case "overrideService":
			m.Str = op.Val.S
			if op.Val.K == "ctx" {
				m.Scope = "contextual"
			}
		}
	}
	return m
}

func litToVal(l fx.Lit) cfg.Val {
	switch l.K {
	case "int":
		return cfg.Int(l.I)
	case "float":
		return cfg.Float(l.F)
	case "bool":
		return cfg.Bool(l.B)
	case "str":
		return cfg.Str(l.S)
	}
	return cfg.Null()
}

// matchRes compares one operation's prediction with the observation.
func matchRes(exp ref.Exp, got fx.Res, b *bij) error {
	where := fmt.Sprintf("%s(%s%s)", got.Op, got.ID, map[bool]string{true: " ctx=" + got.Ctx, false: ""}[got.Ctx != ""])
	if got.Panic != "" && !exp.Panic {
		return fmt.Errorf("%s panicked: %s", where, got.Panic)
	}
	if exp.Panic {
		if got.Panic == "" {
			return fmt.Errorf("%s: expected a panic, observed none (err=%q)", where, got.Err)
		}
		return nil
	}
	if exp.Err != "" {
		if got.Err == "" {
			return fmt.Errorf("%s: expected an error containing %q, observed success", where, exp.Err)
		}
		// the expected parts must occur in this order and without overlap (the token text quotes the user's
		// message, so an unordered search would find a message inside the token that names it)
		rest := got.Err
		for _, part := range strings.Split(exp.Err, "\x00") {
			if strings.HasSuffix(part, "\x01") { // this part ends its line of the (possibly grouped, multi-line) error text
				part = strings.TrimSuffix(part, "\x01")
				found := -1
				for from := 0; from <= len(rest); {
					k := strings.Index(rest[from:], part)
					if k < 0 {
						break
					}
					end := from + k + len(part)
					// ... and it is the whole last segment of that line: wrapping layers put "<context>: " in front of a
					// message, they do not extend it (an empty message would otherwise be found at the end of any text)
					start := from + k
					whole := start == 0 || rest[start-1] == '\n' || strings.HasSuffix(rest[:start], ": ")
					if whole && (end == len(rest) || rest[end] == '\n') {
						found = end
						break
					}
					from += k + 1
				}
				if found < 0 {
					return fmt.Errorf("%s: expected an error with a line ending with %q (after the preceding parts), observed %q", where, part, got.Err)
				}
				rest = rest[found:]
				continue
			}
			at := strings.Index(rest, part)
			if at >= 0 {
				rest = rest[at+len(part):]
			}
			if at < 0 {
				return fmt.Errorf("%s: expected an error containing %q (after the preceding parts), observed %q", where, part, got.Err)
			}
		}
		if got.V != nil && got.V.T != "nil" && got.V.S != "nil" {
			// an error must not come with an object; typed zero values of getters are fine
			if got.V.O != nil && got.V.O.Serial != 0 {
				return fmt.Errorf("%s: returned both an error and an object (%s)", where, got.V.T)
			}
		}
		return nil
	}
	if got.Err != "" {
		return fmt.Errorf("%s: unexpected error %q", where, got.Err)
	}
	if exp.IsList {
		return matchList(where, exp.L, got.L, b)
	}
	if exp.V != nil {
		if got.V == nil {
			return fmt.Errorf("%s: no value observed", where)
		}
		return matchV(where, *exp.V, *got.V, b)
	}
	return nil
}

// behMember is one configuration with its probe script.
type behMember struct {
	Files  []cfg.Config `json:"files"`
	Style  cfg.Style    `json:"style"`
	Script fx.Script    `json:"script"`
	Labels []string     `json:"labels,omitempty"`
	// the existence rules switched off at build time (names supplied at run time through OverrideParam / OverrideService)
	IgnoreP bool `json:"ignore_missing_params,omitempty"`
	IgnoreS bool `json:"ignore_missing_services,omitempty"`
	// further declarations of the container's own package (see ref.LocalAliases)
	LocalExtra string `json:"local_extra,omitempty"`
}

type behCase struct {
	Members []behMember `json:"members"`
}

// behContext is what a member-level check receives.
type behContext struct {
	M      behMember
	Merged cfg.Config
	Cont   *fx.Container
	One    behCase
}

// behCompileErrIsViolation: the running property treats a non-compiling output as its own
// violation (C14: a reference that resolves to a non-existent or wrong package).
var behCompileErrIsViolation bool

// behCrashIsViolation: the running property claims certain start-up crashes as its own violation
// (C13: the generated init() asserts the getter interface).
var behCrashIsViolation func(crash string) bool

// behBatch runs the members through the tool, builds and probes the accepted ones in
// one batch and calls check for each. Members the tool rejects are handed to
// onReject (nil = count as excluded). Returns the number of members probed.
func behBatch(t tb, c behCase, nontrivial func(m behMember, merged cfg.Config) bool, check func(t tb, bc behContext), onReject func(t tb, m behMember, merged cfg.Config, o Outcome)) int {
	col := ev.Get()
	u := universe()
	var ctxs []behContext
	var conts []*fx.Container
	for _, m := range c.Members {
		spec, merged, err := memberSpec(c01Member{Files: m.Files, Style: m.Style, IgnoreP: m.IgnoreP, IgnoreS: m.IgnoreS})
		if err != nil {
			col.Exclude("serialiser-self-check")
			continue
		}
		o := runInproc(spec)
		col.Case(ev.Hash(m), nontrivial(m, merged))
		for _, l := range m.Labels {
			col.Label(l)
		}
		one := behCase{Members: []behMember{m}}
		if o.Res.Panic != "" {
			o.cleanup()
			violation(t, "panic", "tool panicked: "+oneLine(o.Res.Panic), one)
			continue
		}
		if o.Res.Exit != 0 || !o.Exists {
			if onReject != nil {
				onReject(t, m, merged, o)
			} else {
				col.Exclude("rejected-by-tool")
				col.Sample("rejected", 2, map[string]any{"files": spec.Files, "errors": o.Report.Errors})
			}
			o.cleanup()
			continue
		}
		pkg, typ, ctor := expectedNames(merged)
		cont := &fx.Container{Name: u.NextName(), Pkg: pkg, Type: typ, Ctor: ctor, Source: o.Out, Script: m.Script, LocalExtra: m.LocalExtra}
		col.Sample("probed", 2, map[string]any{"files": spec.Files, "script": m.Script, "labels": m.Labels})
		o.cleanup()
		ctxs = append(ctxs, behContext{M: m, Merged: merged, Cont: cont, One: one})
		conts = append(conts, cont)
	}
	if len(conts) == 0 {
		return 0
	}
	if err := u.BuildBatch(conts, ""); err != nil {
		t.Fatalf("INFRA: %v", err)
	}
	dropped, probed := 0, 0
	for _, bc := range ctxs {
		cn := bc.Cont
		if cn.CompileErr != "" && behCompileErrIsViolation {
			violation(t, "compile:"+compileKey(cn.CompileErr), "generated code does not compile: "+oneLine(cn.CompileErr), bc.One)
			continue
		}
		if cn.Crashed != "" && behCrashIsViolation != nil && behCrashIsViolation(cn.Crashed) {
			violation(t, "init-crash", "the generated package panics during initialisation: "+oneLine(cn.Crashed), bc.One)
			continue
		}
		if cn.CompileErr != "" || cn.Crashed != "" || cn.Out == nil || !cn.Out.Alive {
			dropped++
			col.Exclude("not-compiling-or-not-alive")
			col.Sample("dropped", 2, map[string]any{"compile": oneLine(cn.CompileErr), "crash": oneLine(cn.Crashed)})
			continue
		}
		if cn.Out.Hang {
			violation(t, "hang", "the probe script did not terminate", bc.One)
			continue
		}
		probed++
		check(t, bc)
	}
	if dropped*2 > len(ctxs) && len(ctxs) >= 4 {
		t.Fatalf("INFRA: more than half of the containers of a batch did not compile (%d of %d); inconclusive on this tree", dropped, len(ctxs))
	}
	return probed
}

// checkAgainstModel replays the script on the DI model and compares every result.
func checkAgainstModel(t tb, bc behContext, keyPrefix string) bool {
	d := ref.NewDI(bc.Merged, bc.M.Script.Env)
	b := newBij()
	res := bc.Cont.Out.Res
	i := 0
	for _, op := range bc.M.Script.Ops {
		n := op.Rep
		if n <= 0 {
			n = 1
		}
		for k := 0; k < n; k++ {
			if i >= len(res) {
				violation(t, keyPrefix+"probe-truncated", "probe returned fewer results than operations", bc.One)
				return false
			}
			got := res[i]
			i++
			switch op.Op {
			case "methods", "istagged", "par":
				continue // checked by the property-specific code
			case "getter", "must":
				// a generated getter is Get / GetInContext on the service named in Tag (a method the type does not have
				// was not executed: nothing to compare, nothing to replay)
				if got.Missing {
					continue
				}
				exp := d.Exec(ref.ProbeOp{Op: "get", ID: op.Tag, Ctx: op.Ctx})
				if exp.Skip {
					ev.Get().Exclude("op-not-predicted")
					continue
				}
				if op.Op == "must" && exp.Err != "" {
					exp = ref.Exp{Panic: true}
				}
				if err := matchRes(exp, got, b); err != nil {
					violation(t, keyPrefix+"getter:"+classifyMismatch(err.Error()), op.Op+" "+op.ID+": "+err.Error(), bc.One)
					return false
				}
				ev.Get().Label("history:generated-getter-called")
				continue
			case "new":
				d = ref.NewDI(bc.Merged, bc.M.Script.Env)
				b = newBij()
				continue
			case "counters":
				if err := matchCounters(d.Counters, got.Counters); err != nil {
					violation(t, keyPrefix+"invocation-counters", err.Error(), bc.One)
					return false
				}
				continue
			}
			exp := d.Exec(modelOp(op))
			if exp.Skip {
				ev.Get().Exclude("op-not-predicted")
				continue
			}
			if err := matchRes(exp, got, b); err != nil {
				kind := strings.SplitN(err.Error(), ":", 2)[0]
				_ = kind
				key := keyPrefix + classifyMismatch(err.Error())
				if strings.HasSuffix(keyPrefix, "!") { // fixed key: the class is identified by the input, not by how it shows
					key = strings.TrimSuffix(keyPrefix, "!")
				}
				violation(t, key, err.Error(), bc.One)
				return false
			}
		}
	}
	return true
}

// matchCounters compares the invocation counters of fixture functions and constructors.
func matchCounters(exp, got map[string]int) error {
	keys := map[string]bool{}
	for k := range exp {
		keys[k] = true
	}
	for k := range got {
		keys[k] = true
	}
	var ks []string
	for k := range keys {
		ks = append(ks, k)
	}
	sort.Strings(ks)
	for _, k := range ks {
		if exp[k] != got[k] {
			return fmt.Errorf("invocation counter %s: expected %d, observed %d (all observed: %v)", k, exp[k], got[k], got)
		}
	}
	return nil
}

func classifyMismatch(msg string) string {
	switch {
	case strings.Contains(msg, "identity:"):
		return "identity"
	case strings.Contains(msg, "comes from package"):
		return "wrong-package"
	case strings.Contains(msg, "expected type"):
		return "type"
	case strings.Contains(msg, "elements"):
		return "length"
	case strings.Contains(msg, "recorded calls"), strings.Contains(msg, "call #"):
		return "calls"
	case strings.Contains(msg, "field"):
		return "fields"
	case strings.Contains(msg, "parent link"):
		return "wither-or-decorator-chain"
	case strings.Contains(msg, "unexpected error"):
		return "unexpected-error"
	case strings.Contains(msg, "expected an error"):
		return "missing-error"
	case strings.Contains(msg, "panicked"):
		return "panic"
	}
	return "value"
}

// behaviouralOpts is the generator configuration whose runtime behaviour the DI model predicts.
func behaviouralOpts() gen.Opts {
	o := gen.All()
	o.Behavioural = true
	o.PkgMain = false
	return o
}

func drawMember(rt *rapid.T, o gen.Opts, maxFiles int) (behMember, cfg.Config) {
	conf, labels := gen.Valid(rt, o)
	m := behMember{Style: drawStyle(rt), Labels: labels.List()}
	m.Files = gen.Split(rt, conf, rapid.IntRange(1, maxFiles).Draw(rt, "nfiles"))
	return m, conf
}

var _ = sut.Flags{}
