//go:build verif

package checks

import (
	"fmt"
	"strings"
	"testing"

	"pgregory.net/rapid"

	"verifh/cfg"
	"verifh/ev"
	"verifh/ref"
)

var _ = ref.ArgPattern

func argForm(v cfg.Val) string {
	if !v.IsStr() {
		return "literal:" + v.K
	}
	k, _, _ := ref.ClassifyArg(v.S)
	return [...]string{"pattern", "value", "service", "tagged", "gontainer"}[k]
}

func c02NonTrivial(m behMember, merged cfg.Config) bool {
	for _, s := range merged.Services {
		forms := map[string]bool{}
		for _, a := range s.Args {
			forms[argForm(a)] = true
		}
		if len(forms) >= 2 || (len(s.Fields) > 0 && len(s.Calls) > 0) {
			return true
		}
		for _, c := range s.Calls {
			if c.Wither {
				return true
			}
		}
	}
	return false
}

func c02Check(t tb, bc behContext) {
	if checkAgainstModel(t, bc, "") {
		ev.Get().Label("matched-model")
	}
}

func TestC02(t *testing.T) {
	col := ev.Get()
	// an accepted configuration over existing symbols whose output does not compile builds no service as declared
	behCompileErrIsViolation = true
	var rc behCase
	if replayPayload(t, &rc) {
		behBatch(t, rc, c02NonTrivial, c02Check, nil)
		return
	}
	for _, f := range regressFiles("C02") {
		var c behCase
		loadRegress(t, f, &c)
		behBatch(t, c, c02NonTrivial, c02Check, nil)
		col.Label("regress")
	}
	// symbols of the container's own package that are named like the local variables of the generated
	// constructor: legal, distinct, not predeclared identifiers
	hostileFns := []string{"dependencyService", "dependencyValue", "dependencyTag", "dependencyProvider", "newService", "concatenateChunks", "paramTodo", "getEnv", "getEnvInt", "getParam", "callProvider"}
	hostileVars := []string{"c", "s", "rootGontainer"}
	idx := 0
	for _, n := range append(append([]string{}, hostileFns...), hostileVars...) {
		idx++
		if !ev.Mine(idx) {
			continue
		}
		isVar := n == "c" || n == "s" || n == "rootGontainer"
		svc := cfg.Service{Name: "x", Ctor: sp(n), Args: []cfg.Val{cfg.Int(1)}}
		if isVar {
			svc = cfg.Service{Name: "x", Value: sp(n)}
		}
		conf := cfg.Config{Meta: cfg.Meta{Pkg: sp("app")}, Services: []cfg.Service{svc,
			{Name: "y", Ctor: sp("NewObj"), Args: []cfg.Val{cfg.Str("@x"), cfg.Str("!value " + n)}}}}
		if !isVar {
			conf.Services[1].Args = conf.Services[1].Args[:1]
		}
		m := behMember{Files: []cfg.Config{conf}, Script: scriptAll(conf), Labels: []string{"own-package-symbol-named-like-a-template-local"}}
		behBatch(t, behCase{Members: []behMember{m}}, func(behMember, cfg.Config) bool { return true }, func(t tb, bc behContext) {
			if checkAgainstModel(t, bc, "template-local-shadows:"+n+"!") {
				ev.Get().Label("matched-model")
			}
		}, nil)
	}

	// the feature lattice of C01, this time executed: every single feature, and feature pairs (every 5th pair in
	// the quick tier, offset by the seed; all pairs in the thorough tier), each probed and compared with the model
	fs := features()
	var lattice []behMember
	skip := func(i int) bool { return strings.HasPrefix(fs[i].name, "never-skipped:") }
	for i := range fs {
		idx++
		if !ev.Mine(idx) || skip(i) {
			continue
		}
		m := latticeMember(fs, []int{i}, false, false)
		merged := ref.Merge(m.Files...)
		lattice = append(lattice, behMember{Files: m.Files, Script: scriptAll(merged), Labels: m.Labels})
	}
	every := pick(5, 1)
	for i := range fs {
		for j := i + 1; j < len(fs); j++ {
			idx++
			if !ev.Mine(idx) || skip(i) || skip(j) || (i*131+j*17+ev.Seed())%every != 0 {
				continue
			}
			m := latticeMember(fs, []int{i, j}, false, (i+j)%2 == 0)
			merged := ref.Merge(m.Files...)
			lattice = append(lattice, behMember{Files: m.Files, Script: scriptAll(merged), Labels: m.Labels})
		}
	}
	for len(lattice) > 0 {
		n := min(32, len(lattice))
		behBatch(t, behCase{Members: lattice[:n]}, c02NonTrivial, c02Check, nil)
		lattice = lattice[n:]
		if deadlinePassed() {
			return
		}
	}
	col.Exhaustive(fmt.Sprintf("feature lattice executed against the model: all %d single features", len(fs)))

	batch := pick(20, 32)
	setRapidChecks(pick(5, 50))
	opts := behaviouralOpts()
	rapid.Check(t, func(rt *rapid.T) {
		if deadlinePassed() {
			rt.Skip("budget used up")
		}
		var c behCase
		k := rapid.IntRange(batch/2, batch).Draw(rt, "batch")
		for i := 0; i < k; i++ {
			m, conf := drawMember(rt, opts, 2)
			m.Script = scriptAll(conf)
			c.Members = append(c.Members, m)
		}
		behBatch(rt, c, c02NonTrivial, c02Check, nil)
	})
	if !deadlinePassed() {
		col.Complete()
	}
}
