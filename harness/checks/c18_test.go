//go:build verif

package checks

import (
	"fmt"
	"os"
	"path/filepath"
	"strings"
	"testing"
	"time"

	"pgregory.net/rapid"

	"verifh/ev"
	"verifh/ref"
	"verifh/sut"
)

// c18Case is one (build version, declared version) pair. VYaml is the literal YAML
// scalar/node text written after "version: " ("" = no version key).
type c18Case struct {
	B        string `json:"build"`
	VYaml    string `json:"version_yaml"`
	V        string `json:"version_value"`
	IsString bool   `json:"is_string"`
	Absent   bool   `json:"absent"`
	Binary   bool   `json:"binary"`             // through a binary linked with -X main.version
	LdPrefix string `json:"ld_prefix"`          // "v" when the linker value carries the v prefix
	LdExtra  string `json:"ld_extra,omitempty"` // "dirty" / "clean": the binary is also linked with isGitDirty, commit, date, builtBy as release builds are
}

func c18Observe(r sut.Result) (string, string) {
	if r.Panic != "" {
		return "panic", r.Panic
	}
	if r.Exit == 0 {
		return "accept", ""
	}
	rep := sut.ParseReport(r.Stdout)
	facts := sut.ParseFacts(rep.Errors)
	sawVersion, sawParse, other := false, false, []string{}
	for _, f := range facts {
		switch {
		case f.Class == "version":
			sawVersion = true
		case f.Class == "read" && strings.Contains(f.B, "parsing yaml"):
			sawParse = true
		case f.Class == "read" && f.B == "could not process any files":
			// consequence of the only input file failing to parse
		default:
			other = append(other, f.String())
		}
	}
	switch {
	case len(other) > 0:
		return "other", strings.Join(other, "; ")
	case sawVersion && !sawParse:
		return "reject", ""
	case sawParse && !sawVersion:
		return "parse-error", ""
	}
	return "other", r.Stdout
}

func c18Eval(t tb, dir string, c c18Case) {
	yaml := "parameters:\n  a: 1\n"
	if !c.Absent {
		yaml = "version: " + c.VYaml + "\n" + yaml
	}
	in := filepath.Join(dir, "in.yaml")
	out := filepath.Join(dir, "out.go")
	_ = os.Remove(out)
	if err := os.WriteFile(in, []byte(yaml), 0o644); err != nil {
		t.Fatalf("write: %v", err)
	}
	var r sut.Result
	if c.Binary {
		ldv := c.LdPrefix + c.B
		if c.LdExtra == "module" {
			ldv = "module:" + c.B // version from the build info (go install ...@vB), no linker flag
		} else if c.LdExtra != "" {
			ldv += "|" + c.LdExtra
		}
		bin, err := sut.BuildBinary(ev.RepoDir(), filepath.Join(ev.ScratchDir(), "bin"), ldv)
		if err != nil {
			t.Fatalf("INFRA build binary: %v", err)
		}
		r = bin.Run(dir, nil, 60*time.Second, sut.BuildArgs([]string{in}, out, sut.Flags{})...)
	} else {
		r = sut.RunInproc(c.B, c.B, sut.BuildArgs([]string{in}, out, sut.Flags{})...)
	}
	var declared *string
	if !c.Absent {
		declared = &c.V
	}
	want := ref.VersionRule(c.B, declared, c.IsString).String()
	got, detail := c18Observe(r)
	col := ev.Get()
	_, bOK := ref.ParseSemVer(c.B)
	_, vOK := ref.ParseSemVer(c.V)
	nontrivial := bOK && vOK && !c.Absent && c.IsString && c.B != c.V
	col.Case(ev.Hash(c), nontrivial)
	col.Label("expect-" + want)
	if c.Binary {
		col.Label("binary")
	}
	col.Sample("expect-"+want, 2, map[string]any{"case": c, "observed": got})
	if got != want {
		key := "version-gate:" + want + "-expected-" + got + "-observed"
		violation(t, key, fmt.Sprintf("build %q, config version %s: expected %s, observed %s %s", c.B, c.VYaml, want, got, detail), c)
	}
	if got == "accept" {
		if _, err := os.Stat(out); err != nil {
			violation(t, "version-gate:accepted-without-output", "exit 0 but no output file", c)
		}
	}
}

func c18Grid() []string {
	var g []string
	majors, minors, sufs := []int{0, 1, 2, 3}, []int{0, 1, 2, 3, 9, 10}, []string{"", "-rc.1", "+build5"}
	if ev.Thorough() {
		majors, minors, sufs = []int{0, 1, 2, 3, 10, 11}, []int{0, 1, 2, 3, 9, 10, 11, 100}, []string{"", "-rc.1", "+build5", "-rc.1+build5"}
	}
	for _, maj := range majors {
		for _, min := range minors {
			for _, p := range []int{0, 7} {
				for _, suf := range sufs {
					g = append(g, fmt.Sprintf("%d.%d.%d%s", maj, min, p, suf))
				}
			}
		}
	}
	return g
}

func strCase(b, v string) c18Case {
	return c18Case{B: b, V: v, VYaml: fmt.Sprintf("%q", v), IsString: true}
}

func TestC18(t *testing.T) {
	col := ev.Get()
	dir := scratch("c18")
	var rc c18Case
	if replayPayload(t, &rc) {
		c18Eval(t, dir, rc)
		return
	}
	for _, f := range regressFiles("C18") {
		var c c18Case
		loadRegress(t, f, &c)
		c18Eval(t, dir, c)
		col.Label("regress")
	}

	grid := c18Grid()
	// (1) exhaustive grid, partitioned over the shards; plain (unquoted) and quoted scalars alternate
	idx := 0
	for _, b := range grid {
		for _, v := range grid {
			idx++
			if !ev.Mine(idx) {
				continue
			}
			c := strCase(b, v)
			if idx%2 == 0 {
				c.VYaml = v // plain scalar: still a YAML string (two dots)
			}
			c18Eval(t, dir, c)
		}
	}
	col.Exhaustive(fmt.Sprintf("grid %dx%d of (build, declared) versions: quick majors 0..3 x minors {0,1,2,3,9,10} x patches {0,7} x {release,-rc.1,+build5}; thorough majors {0..3,10,11} x minors {0..3,9,10,11,100} x patches {0,7} x {release,-rc.1,+build5,-rc.1+build5}", len(grid), len(grid)))

	// (2) builds without a semantic version; no declared version; malformed declared versions
	nonSemverB := []string{"devel", "dev-main", "", "(devel)", "main", "v", "x.y.z", "1.2.3.4"}
	malformed := []c18Case{
		{VYaml: `"v1.0.0"`, V: "v1.0.0", IsString: true},
		{VYaml: `"abc"`, V: "abc", IsString: true},
		{VYaml: `"1.2.3.4"`, V: "1.2.3.4", IsString: true},
		{VYaml: `"01.2.3"`, V: "01.2.3", IsString: true},
		{VYaml: `"1.02.3"`, V: "1.02.3", IsString: true},
		{VYaml: `""`, V: "", IsString: true},
		{VYaml: `" 1.2.3"`, V: " 1.2.3", IsString: true},
		{VYaml: `"1.2.3 "`, V: "1.2.3 ", IsString: true},
		{VYaml: `"1.2.3-"`, V: "1.2.3-", IsString: true},
		{VYaml: `"1.2.3+"`, V: "1.2.3+", IsString: true},
		{VYaml: `"1.2.3-a..b"`, V: "1.2.3-a..b", IsString: true},
		{VYaml: `"1.2.3-01"`, V: "1.2.3-01", IsString: true},
		{VYaml: `5`, V: "5", IsString: false},
		{VYaml: `1.5`, V: "1.5", IsString: false},
		{VYaml: `true`, V: "true", IsString: false},
		{VYaml: `[1, 2, 3]`, V: "[1,2,3]", IsString: false},
		{VYaml: `{a: 1}`, V: "{a:1}", IsString: false},
	}
	idx = 0
	for _, b := range append(append([]string{}, nonSemverB...), grid...) {
		idx++
		if ev.Mine(idx) {
			c18Eval(t, dir, c18Case{B: b, Absent: true})
		}
		for _, m := range malformed {
			idx++
			if !ev.Mine(idx) {
				continue
			}
			c := m
			c.B = b
			c18Eval(t, dir, c)
		}
	}
	for _, b := range nonSemverB {
		for _, v := range grid {
			idx++
			if ev.Mine(idx) {
				c18Eval(t, dir, strCase(b, v))
			}
		}
	}
	col.Exhaustive("non-semver builds x grid, absent version x all builds, 17 malformed declared versions x all builds")

	// (3) random semantic versions beyond the grid
	setRapidChecks(pick(150, 4000))
	num := rapid.OneOf(
		rapid.IntRange(0, 12).AsAny(),
		rapid.SampledFrom([]int{99, 100, 2147483647}).AsAny(),
	)
	genNum := rapid.Custom(func(t *rapid.T) string {
		if rapid.IntRange(0, 19).Draw(t, "huge") == 0 {
			return rapid.StringMatching(`[1-9][0-9]{18,24}`).Draw(t, "n")
		}
		return fmt.Sprint(num.Draw(t, "n"))
	})
	genSuffix := rapid.Custom(func(t *rapid.T) string {
		s := ""
		if rapid.Bool().Draw(t, "pre") {
			s += "-" + rapid.StringMatching(`(0|[1-9][0-9]{0,2}|[a-zA-Z-][0-9a-zA-Z-]{0,5})(\.(0|[1-9][0-9]{0,2}|[a-zA-Z-][0-9a-zA-Z-]{0,5})){0,3}`).Draw(t, "p")
		}
		if rapid.Bool().Draw(t, "build") {
			s += "+" + rapid.StringMatching(`[0-9a-zA-Z-]{1,6}(\.[0-9a-zA-Z-]{1,6}){0,2}`).Draw(t, "b")
		}
		return s
	})
	genVer := rapid.Custom(func(t *rapid.T) string {
		return genNum.Draw(t, "maj") + "." + genNum.Draw(t, "min") + "." + genNum.Draw(t, "pat") + genSuffix.Draw(t, "suf")
	})
	rapid.Check(t, func(rt *rapid.T) {
		b := genVer.Draw(rt, "B")
		var v string
		switch rapid.IntRange(0, 3).Draw(rt, "rel") {
		case 0: // same major, independent minor
			pb, _ := ref.ParseSemVer(b)
			v = pb.Major + "." + genNum.Draw(rt, "vmin") + "." + genNum.Draw(rt, "vpat") + genSuffix.Draw(rt, "vsuf")
		case 1: // same major.minor
			pb, _ := ref.ParseSemVer(b)
			v = pb.Major + "." + pb.Minor + "." + genNum.Draw(rt, "vpat") + genSuffix.Draw(rt, "vsuf")
		default:
			v = genVer.Draw(rt, "V")
		}
		if _, ok := ref.ParseSemVer(b); !ok {
			rt.Fatalf("generator produced invalid semver %q", b)
		}
		col.Label("random")
		c18Eval(rt, dir, strCase(b, v))
	})

	// (4) through real binaries linked with -X main.version=<B> (covers main.go: v-prefix stripping)
	type ld struct{ b, prefix, extra string }
	lds := []ld{{"0.4.2", "v", ""}, {"1.3.0", "v", "dirty"}, {"2.0.7-rc.1", "v", "clean"}, {"0.0.0", "", ""}, {"3.1.0+build5", "v", ""}, {"dev-main", "", "dirty"},
		{"3.1.0+build5", "v", "dirty"}, {"0.3.1+exp.sha.5114f85", "", "dirty"}, {"1.3.0-rc.1", "", "dirty"}, {"1.3.0+b", "v", "clean"},
		{"1.3.1-0.20231102220126-cd3ac9fbe738", "v", ""}, {"0.0.0-20231102220126-cd3ac9fbe738", "v", "dirty"}, {"1.3.1-rc.1.0.20231102220126-cd3ac9fbe738", "", ""},
		{"1.2.3", "", "module"}, {"0.3.1", "", "module"}, {"1.10.0-rc.1", "", "module"}}
	if ev.Thorough() {
		for i, b := range grid {
			p := "v"
			if i%5 == 0 {
				p = ""
			}
			lds = append(lds, ld{b, p, []string{"", "dirty", "clean"}[i%3]})
		}
		lds = append(lds, ld{"devel", "", ""}, ld{"vdev", "", ""}, ld{"v", "", "dirty"})
	}
	for i, l := range lds {
		if !ev.Mine(i) {
			continue
		}
		vs := []string{l.b, "0.4.0", "0.3.9", "1.0.0", "1.3.5", "1.4.0", "2.0.0", "3.0.0-x", "3.1.9", "3.2.0"}
		for _, v := range vs {
			c := strCase(l.b, v)
			c.Binary, c.LdPrefix, c.LdExtra = true, l.prefix, l.extra
			c18Eval(t, dir, c)
		}
		c18Eval(t, dir, c18Case{B: l.b, Absent: true, Binary: true, LdPrefix: l.prefix, LdExtra: l.extra})
		c18Eval(t, dir, c18Case{B: l.b, VYaml: `"v1.0.0"`, V: "v1.0.0", IsString: true, Binary: true, LdPrefix: l.prefix, LdExtra: l.extra})
	}
	col.Complete()
}
