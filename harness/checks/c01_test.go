//go:build verif

package checks

import (
	"fmt"
	"regexp"
	"strings"
	"testing"

	"pgregory.net/rapid"

	"verifh/cfg"
	"verifh/ev"
	"verifh/fx"
	"verifh/gen"
	"verifh/ref"
	"verifh/sut"
)

// c01Member is one configuration of a batch.
type c01Member struct {
	Files  []cfg.Config `json:"files"` // merged in order
	Style  cfg.Style    `json:"style"`
	Stub   bool         `json:"stub"`
	Labels []string     `json:"labels,omitempty"`
	// the existence rules switched off: dangling references are then resolved (or not) at run time, the code must still compile
	IgnoreP bool `json:"ignore_missing_params,omitempty"`
	IgnoreS bool `json:"ignore_missing_services,omitempty"`
}

type c01Case struct {
	Members []c01Member `json:"members"`
}

var reIdentNoise = regexp.MustCompile(`i[0-9a-f]+_[A-Za-z0-9_]+|g\d+|"[^"]*"|\d+`)

func compileKey(msg string) string {
	first := strings.SplitN(msg, "\n", 2)[0]
	if i := strings.Index(first, ": "); i >= 0 {
		first = first[i+2:]
	}
	first = reIdentNoise.ReplaceAllString(first, "_")
	if len(first) > 80 {
		first = first[:80]
	}
	return first
}

// inputClass names the known-finding class a member belongs to by construction ("" = none).
func inputClass(m c01Member) string {
	for _, l := range m.Labels {
		if strings.HasPrefix(l, "feature:alias:equals-template-import:") {
			return "alias-equals-template-import:" + strings.TrimPrefix(l, "feature:alias:equals-template-import:")
		}
	}
	return ""
}

// memberSpec renders the member's files.
func memberSpec(m c01Member) (Spec, cfg.Config, error) {
	var s Spec
	for i, f := range m.Files {
		st := m.Style
		st.Seed += uint64(i) * 977
		text, err := cfg.Emit(f, st)
		if err != nil {
			return s, cfg.Config{}, err
		}
		// the files are passed as separate -i patterns in this order; their names sort differently
		// (m00, c01, x02, a03, ...), so "order of the patterns" and "lexical order of the paths" disagree
		s.Files = append(s.Files, File{Name: fmt.Sprintf("%c%02d.yaml", "mcxatb"[i%6], i), Content: text})
	}
	if len(s.Files) == 2 && m.Style.Flow {
		// one pattern with the wildcard in the directory part: Glob lists conf/ before conf.d/, the documented order is
		// the lexical order of the paths (conf.d/m.yaml < conf/m.yaml)
		s.Files[0].Name, s.Files[1].Name = "conf.d/m.yaml", "conf/m.yaml"
		s.Patterns = []string{"conf*/*.yaml"}
	}
	s.Flags = sut.Flags{Stub: m.Stub, IgnoreMissingParams: m.IgnoreP, IgnoreMissingServices: m.IgnoreS}
	return s, ref.Merge(m.Files...), nil
}

// c01EvalBatch evaluates a batch; returns the number of members that reached the compiler.
func c01EvalBatch(t tb, c c01Case) int {
	col := ev.Get()
	u := universe()
	type item struct {
		m    c01Member
		idx  int
		cont *fx.Container
	}
	var normal, stubs []*item
	for i, m := range c.Members {
		spec, merged, err := memberSpec(m)
		if err != nil {
			col.Exclude("serialiser-self-check")
			col.Sample("self-check", 3, err.Error())
			continue
		}
		o := runInproc(spec)
		nontrivial := len(merged.Services) >= 1 && len(m.Labels) >= 3
		col.Case(ev.Hash(m), nontrivial)
		for _, l := range m.Labels {
			col.Label(l)
		}
		if o.Res.Panic != "" {
			o.cleanup()
			violation(t, "panic", "tool panicked: "+oneLine(o.Res.Panic), c01Case{Members: []c01Member{m}})
			continue
		}
		if o.Res.Exit != 0 {
			// C01 speaks about accepted configurations only; the rejection itself is C11's business
			col.Exclude("rejected-by-tool")
			col.Sample("rejected", 2, map[string]any{"files": spec.Files, "errors": o.Report.Errors})
			o.cleanup()
			continue
		}
		if !o.Exists {
			o.cleanup()
			violation(t, "exit0-no-output", "exit 0 but the output file does not exist", c01Case{Members: []c01Member{m}})
			continue
		}
		if err := checkGeneratedSource(o.Out, m.Stub); err != nil {
			o.cleanup()
			violation(t, "static:"+compileKey(err.Error()), err.Error(), c01Case{Members: []c01Member{m}})
			continue
		}
		pkg, typ, ctor := expectedNames(merged)
		it := &item{m: m, idx: i, cont: &fx.Container{
			Name: u.NextName(), Pkg: pkg, Type: typ, Ctor: ctor, Source: o.Out,
			Script: fx.Script{Ops: []fx.Op{{Op: "methods"}}},
		}}
		col.Sample("accepted", 3, map[string]any{"files": spec.Files, "flags": spec.Flags.String(), "labels": m.Labels})
		o.cleanup()
		if m.Stub {
			stubs = append(stubs, it)
		} else {
			normal = append(normal, it)
		}
	}
	run := func(items []*item, tags string) {
		if len(items) == 0 {
			return
		}
		var cs []*fx.Container
		for _, it := range items {
			cs = append(cs, it.cont)
		}
		if err := u.BuildBatch(cs, tags); err != nil {
			t.Fatalf("INFRA: %v", err)
		}
		for _, it := range items {
			one := c01Case{Members: []c01Member{it.m}}
			c := it.cont
			switch {
			case c.CompileErr != "" && inputClass(it.m) != "":
				violation(t, inputClass(it.m), "generated code does not compile: "+oneLine(c.CompileErr), one)
			case c.CompileErr != "":
				violation(t, "compile:"+compileKey(c.CompileErr), "generated code does not compile: "+oneLine(c.CompileErr), one)
			case c.Crashed != "":
				violation(t, "init-crash", "probe crashed with this package linked in: "+oneLine(c.Crashed), one)
			case c.Out == nil || !c.Out.Registered:
				violation(t, "not-linked", "generated package did not register with the probe", one)
			case !it.m.Stub && c.Out.CtorPanic != "":
				violation(t, "ctor-panic", "constructor panicked: "+c.Out.CtorPanic, one)
			case it.m.Stub && c.Out.CtorPanic != "stub":
				violation(t, "stub-ctor", fmt.Sprintf("stub constructor did not panic with \"stub\": %q", c.Out.CtorPanic), one)
			default:
				col.Label("compiled-and-initialised")
			}
		}
	}
	run(normal, "")
	run(stubs, "gontainerstub")
	return len(normal) + len(stubs)
}

// ---------------------------------------------------------------------------
// feature lattice

type feature struct {
	name  string
	apply func(c *cfg.Config, k int)
}

func sp(s string) *string { return &s }
func bp(b bool) *bool     { return &b }

func addSvc(c *cfg.Config, s cfg.Service) { c.Services = append(c.Services, s) }

func features() []feature {
	n := func(k int) string { return fmt.Sprintf("f%d", k) }
	gt := func(k int) *string { return sp(fmt.Sprintf("GetF%d", k)) }
	simple := func(name string, mod func(s *cfg.Service, c *cfg.Config, k int)) feature {
		return feature{name, func(c *cfg.Config, k int) {
			s := cfg.Service{Name: n(k), Ctor: sp("fx/lib.NewObj")}
			mod(&s, c, k)
			addSvc(c, s)
		}}
	}
	param := func(name string, v cfg.Val) feature {
		return feature{"param:" + name, func(c *cfg.Config, k int) {
			c.Params = append(c.Params, cfg.Param{Name: fmt.Sprintf("p%d", k), Val: v})
			addSvc(c, cfg.Service{Name: n(k), Ctor: sp("fx/lib.NewObj"), Args: []cfg.Val{v, cfg.Str(fmt.Sprintf("%%p%d%%", k))}})
		}}
	}
	fs := []feature{
		simple("create:constructor", func(s *cfg.Service, c *cfg.Config, k int) {}),
		simple("create:constructor-error", func(s *cfg.Service, c *cfg.Config, k int) { s.Ctor = sp("fx/lib.NewObjE") }),
		simple("create:value-var", func(s *cfg.Service, c *cfg.Config, k int) { s.Ctor, s.Value = nil, sp("fx/lib.GlobalObj") }),
		simple("create:value-addr-struct", func(s *cfg.Service, c *cfg.Config, k int) { s.Ctor, s.Value = nil, sp(`&"fx/lib".Obj{}`) }),
		simple("create:value-struct", func(s *cfg.Service, c *cfg.Config, k int) { s.Ctor, s.Value = nil, sp(`fx/lib.Val{}`) }),
		simple("create:value-field-path", func(s *cfg.Service, c *cfg.Config, k int) { s.Ctor, s.Value = nil, sp(`"fx/lib".Holder.Inner.Leaf`) }),
		simple("create:value-addr-var", func(s *cfg.Service, c *cfg.Config, k int) { s.Ctor, s.Value = nil, sp(`&fx/lib.GlobalVal`) }),
		simple("create:type-only", func(s *cfg.Service, c *cfg.Config, k int) { s.Ctor, s.Type = nil, sp("fx/lib.Val") }),
		simple("getter:no-type", func(s *cfg.Service, c *cfg.Config, k int) { s.Getter = gt(k) }),
		simple("getter:pointer", func(s *cfg.Service, c *cfg.Config, k int) { s.Getter, s.Type = gt(k), sp("*fx/lib.Obj") }),
		simple("getter:struct", func(s *cfg.Service, c *cfg.Config, k int) {
			s.Ctor, s.Getter, s.Type = sp("fx/lib.NewVal"), gt(k), sp("fx/lib.Val")
		}),
		simple("getter:interface", func(s *cfg.Service, c *cfg.Config, k int) { s.Getter, s.Type = gt(k), sp(`"fx/lib".Iface`) }),
		simple("getter:named-int", func(s *cfg.Service, c *cfg.Config, k int) {
			s.Ctor, s.Value, s.Getter, s.Type = nil, sp("fx/lib.NumVal"), gt(k), sp("fx/lib.Num")
		}),
		simple("getter:named-slice", func(s *cfg.Service, c *cfg.Config, k int) {
			s.Ctor, s.Value, s.Getter, s.Type = nil, sp("fx/lib.ListVal"), gt(k), sp("fx/lib.List")
		}),
		simple("getter:named-func", func(s *cfg.Service, c *cfg.Config, k int) {
			s.Ctor, s.Value, s.Getter, s.Type = nil, sp("fx/lib.FnVal"), gt(k), sp("fx/lib.Fn")
		}),
		simple("must_getter:true", func(s *cfg.Service, c *cfg.Config, k int) {
			s.Getter, s.Must, s.Type = gt(k), bp(true), sp("*fx/lib.Obj")
		}),
		simple("must_getter:true-struct", func(s *cfg.Service, c *cfg.Config, k int) {
			s.Ctor, s.Getter, s.Must, s.Type = sp("fx/lib.NewVal"), gt(k), bp(true), sp("fx/lib.Val")
		}),
		simple("default_must_getter", func(s *cfg.Service, c *cfg.Config, k int) { s.Getter = gt(k); c.Meta.DefaultMust = bp(true) }),
		simple("scope:shared", func(s *cfg.Service, c *cfg.Config, k int) { s.Scope = sp("shared") }),
		simple("scope:contextual", func(s *cfg.Service, c *cfg.Config, k int) { s.Scope = sp("contextual") }),
		simple("scope:non_shared", func(s *cfg.Service, c *cfg.Config, k int) { s.Scope = sp("non_shared") }),
		{"tags+tagged", func(c *cfg.Config, k int) {
			t := fmt.Sprintf("tag%d", k)
			addSvc(c, cfg.Service{Name: n(k) + "a", Ctor: sp("fx/lib.NewObj"), Tags: []cfg.Tag{{Name: t}}})
			addSvc(c, cfg.Service{Name: n(k) + "b", Ctor: sp("fx/lib.NewObj"), Tags: []cfg.Tag{{Name: t, Prio: -2147483648}, {Name: t + ".x", ObjForm: true, NoPrio: true}}})
			addSvc(c, cfg.Service{Name: n(k), Ctor: sp("fx/lib.NewObj"), Args: []cfg.Val{cfg.Str("!tagged " + t)}})
		}},
		simple("calls", func(s *cfg.Service, c *cfg.Config, k int) {
			s.Calls = []cfg.Call{{Method: "Call1", Arity: 1}, {Method: "Call2", Args: []cfg.Val{cfg.Int(1), cfg.Str("x")}}, {Method: "Call1", Arity: 3}}
		}),
		simple("withers", func(s *cfg.Service, c *cfg.Config, k int) {
			s.Calls = []cfg.Call{{Method: "With1", Wither: true, Args: []cfg.Val{cfg.Null()}}, {Method: "Call1"}, {Method: "With2", Wither: true}}
		}),
		simple("fields", func(s *cfg.Service, c *cfg.Config, k int) {
			s.Fields = []cfg.Field{{Name: "FieldA", Val: cfg.Int(5)}, {Name: "fieldC", Val: cfg.Str("!value fx/lib.ID")}}
		}),
		{"decorator", func(c *cfg.Config, k int) {
			t := fmt.Sprintf("dtag%d", k)
			addSvc(c, cfg.Service{Name: n(k) + "dep", Ctor: sp("fx/lib.NewObj")})
			addSvc(c, cfg.Service{Name: n(k), Ctor: sp("fx/lib.NewObj"), Tags: []cfg.Tag{{Name: t}}})
			c.Decorators = append(c.Decorators, cfg.Decorator{Tag: t, Fn: `"fx/libx".Decorate`,
				Args: []cfg.Val{cfg.Str("@" + n(k) + "dep"), cfg.Int(3), cfg.Str("$gontainer"), cfg.Str("!value fx/lib.ID"), cfg.Str("a%%b")}})
		}},
		param("int", cfg.Int(42)), param("negative-int", cfg.Int(-7)), param("min-int64", cfg.Int(-9223372036854775808)),
		param("uint64", cfg.Uint(18446744073709551615)), param("float", cfg.Float(2.5)), param("float-exp", cfg.Float(1e21)),
		param("plus-inf", cfg.Val{K: "float", FS: ".inf"}), param("minus-inf", cfg.Val{K: "float", FS: "-.inf"}),
		param("nan", cfg.Val{K: "float", FS: ".nan"}), param("bool", cfg.Bool(true)), param("null", cfg.Null()),
		param("string", cfg.Str("plain \"quoted\" \\ back\nnewline é 世 😀")), param("percent", cfg.Str("100%%")),
		param("env", cfg.Str(`%env("VERIF_UNSET", "d")%`)), param("envInt", cfg.Str(`%envInt("VERIF_UNSET", 3)%`)),
		param("multi-chunk", cfg.Str(`a%%b%env("VERIF_UNSET", "d")%:%envInt("VERIF_UNSET", 3)%`)),
		param("todo", cfg.Str(`%todo("later")%`)),
		{"user-function", func(c *cfg.Config, k int) {
			fn := fmt.Sprintf("fn%d", k)
			c.Meta.Functions = append(c.Meta.Functions, cfg.KV{K: fn, V: `"fx/libx".Echo`})
			c.Params = append(c.Params, cfg.Param{Name: fmt.Sprintf("p%d", k), Val: cfg.Str("%" + fn + `("x", 1)% and %` + fn + "()%")})
		}},
		{"alias:plain", func(c *cfg.Config, k int) {
			a := fmt.Sprintf("al%d", k)
			c.Meta.Imports = append(c.Meta.Imports, cfg.KV{K: a, V: "fx/libx"})
			addSvc(c, cfg.Service{Name: n(k), Ctor: sp(a + ".NewObj"), Getter: gt(k), Type: sp("*" + a + ".Obj")})
		}},
		{"alias:path-prefix", func(c *cfg.Config, k int) {
			a := fmt.Sprintf("root%d", k)
			c.Meta.Imports = append(c.Meta.Imports, cfg.KV{K: a, V: "fx"})
			addSvc(c, cfg.Service{Name: n(k), Ctor: sp(a + "/lib/sub.NewObj"), Args: []cfg.Val{cfg.Str(`!value "` + a + `/my-lib.v2".GlobalObj`)}})
		}},
		{"alias:prefix-of-template-import", func(c *cfg.Config, k int) {
			c.Meta.Imports = append(c.Meta.Imports, cfg.KV{K: "f", V: "fx/libx"}, cfg.KV{K: "c", V: "fx/lib"}, cfg.KV{K: "git", V: "fx/a/lib"})
			addSvc(c, cfg.Service{Name: n(k), Ctor: sp("f.NewObj"), Getter: gt(k), Args: []cfg.Val{cfg.Str(`%env("VERIF_UNSET", "d")%`)}})
		}},
		{"alias:prefix-of-alias", func(c *cfg.Config, k int) {
			c.Meta.Imports = append(c.Meta.Imports, cfg.KV{K: "l", V: "fx/a/lib"}, cfg.KV{K: "li", V: "fx/b/lib"}, cfg.KV{K: "lib", V: "fx/libx"})
			addSvc(c, cfg.Service{Name: n(k), Ctor: sp("lib.NewObj"), Args: []cfg.Val{cfg.Str("!value li.GlobalObj"), cfg.Str("!value l.GlobalObj")}})
		}},
		{"same-last-element", func(c *cfg.Config, k int) {
			addSvc(c, cfg.Service{Name: n(k), Ctor: sp("fx/a/lib.NewObj"), Args: []cfg.Val{cfg.Str("!value fx/b/lib.GlobalObj"), cfg.Str("!value fx/lib.GlobalObj"), cfg.Str(`!value "fx/my-lib.v2".GlobalObj`)}})
		}},
		{"std-named-packages", func(c *cfg.Config, k int) {
			addSvc(c, cfg.Service{Name: n(k), Ctor: sp("fx/os.NewObj"), Getter: gt(k), Type: sp("*fx/os.Obj"),
				Args: []cfg.Val{cfg.Str("!value fx/fmt.GlobalObj"), cfg.Str("!value fx/errors.GlobalObj"), cfg.Str("!value fx/context.GlobalObj"), cfg.Str("!value fx/reflect.ID"), cfg.Str("!value fx/strconv.ID")}})
		}},
		{"todo-service", func(c *cfg.Config, k int) {
			addSvc(c, cfg.Service{Name: n(k) + "t", Todo: bp(true)})
			addSvc(c, cfg.Service{Name: n(k), Ctor: sp("fx/lib.NewObj"), Args: []cfg.Val{cfg.Str("@" + n(k) + "t")}})
		}},
		{"current-package", func(c *cfg.Config, k int) {
			addSvc(c, cfg.Service{Name: n(k), Ctor: sp("NewObj"), Getter: gt(k), Type: sp("*Obj"), Args: []cfg.Val{cfg.Str(`!value ".".Holder.Field`), cfg.Str("!value &Val{}")}})
			addSvc(c, cfg.Service{Name: n(k) + "v", Value: sp(`".".GlobalVal`), Getter: sp(fmt.Sprintf("GetV%d", k)), Type: sp(`".".Val`)})
		}},
		{"meta-names", func(c *cfg.Config, k int) {
			c.Meta.Pkg, c.Meta.Type, c.Meta.Ctor = sp("custompkg"), sp("box_t"), sp("makeBox")
		}},
		simple("arg:literals", func(s *cfg.Service, c *cfg.Config, k int) {
			s.Args = []cfg.Val{cfg.Uint(9223372036854775808), cfg.Float(-0.5), cfg.Null(), cfg.Bool(false), cfg.Int(-1), cfg.Str("")}
		}),
		simple("arg:gontainer", func(s *cfg.Service, c *cfg.Config, k int) { s.Args = []cfg.Val{cfg.Str("$gontainer")} }),
	}
	for _, a := range []string{"fmt", "os", "errors", "context", "reflect", "strconv", "github.com"} {
		a := a
		fs = append(fs, feature{"alias:equals-template-import:" + a, func(c *cfg.Config, k int) {
			c.Meta.Imports = append(c.Meta.Imports, cfg.KV{K: a, V: "fx/libx"})
			c.Params = append(c.Params, cfg.Param{Name: fmt.Sprintf("p%d", k), Val: cfg.Str(`%env("VERIF_UNSET", "d")%:%envInt("VERIF_UNSET", 1)%`)})
			addSvc(c, cfg.Service{Name: n(k), Ctor: sp(a + ".NewObj"), Getter: gt(k), Type: sp("*" + a + ".Obj")})
			addSvc(c, cfg.Service{Name: n(k) + "t", Todo: bp(true)})
		}})
	}
	return fs
}

func baseConfig() cfg.Config {
	return cfg.Config{Meta: cfg.Meta{Pkg: sp("app")}}
}

func latticeMember(fs []feature, idx []int, stub bool, split bool) c01Member {
	var files []cfg.Config
	var labels []string
	if split && len(idx) > 1 {
		for j, i := range idx {
			c := cfg.Config{}
			if j == 0 {
				c = baseConfig()
			}
			fs[i].apply(&c, i)
			files = append(files, c)
		}
	} else {
		c := baseConfig()
		for _, i := range idx {
			fs[i].apply(&c, i)
		}
		files = []cfg.Config{c}
	}
	for _, i := range idx {
		labels = append(labels, "feature:"+fs[i].name)
	}
	labels = append(labels, fmt.Sprintf("files:%d", len(files)), fmt.Sprintf("stub:%v", stub))
	return c01Member{Files: files, Stub: stub, Labels: labels}
}

func TestC01(t *testing.T) {
	col := ev.Get()
	var rc c01Case
	if replayPayload(t, &rc) {
		c01EvalBatch(t, rc)
		return
	}
	for _, f := range regressFiles("C01") {
		var c c01Case
		loadRegress(t, f, &c)
		c01EvalBatch(t, c)
		col.Label("regress")
	}

	// (b) feature lattice: every single feature (both modes); every pair in the thorough tier,
	// a seed-dependent sample of the pairs in the quick tier
	fs := features()
	var members []c01Member
	idx := 0
	for i := range fs {
		for _, stub := range []bool{false, true} {
			idx++
			if ev.Mine(idx) {
				members = append(members, latticeMember(fs, []int{i}, stub, false))
			}
		}
	}
	col.Exhaustive(fmt.Sprintf("feature lattice: all %d single features x {normal, stub}", len(fs)))
	pairEvery := 1
	if !ev.Thorough() {
		pairEvery = 6
	}
	for i := range fs {
		for j := i + 1; j < len(fs); j++ {
			idx++
			if !ev.Mine(idx) {
				continue
			}
			if (i*131+j*17+ev.Seed())%pairEvery != 0 {
				continue
			}

			members = append(members, latticeMember(fs, []int{i, j}, (i+j)%3 == 0, (i+j)%2 == 0))
		}
	}
	if ev.Thorough() {
		col.Exhaustive(fmt.Sprintf("feature lattice: all %d feature pairs", len(fs)*(len(fs)-1)/2))
	}
	// (c) distinct configured identifiers whose *derived* method names coincide (Must<G>, <G>InContext, Must<G>InContext,
	// the embedded container's API): the tool rejects them today (excluded, C11/C13 own that); should one ever be accepted,
	// C01 still demands code that compiles
	for _, g := range []string{"ang", "Val", "x1", "GetA"} {
		for _, other := range []string{"Must" + g, g + "InContext", "Must" + g + "InContext", "Must" + strings.ToUpper(g[:1]) + g[1:], "Get", "GetParam", "Container",
			// the unexported helper methods the template declares on the container type
			"_getEnv", "_getEnvInt", "_paramTodo", "_callProvider", "_concatenateChunks"} {
			for v := 0; v < 8; v++ {
				idx++
				if !ev.Mine(idx) {
					continue
				}
				c := cfg.Config{Meta: cfg.Meta{Pkg: sp("app")}, Services: []cfg.Service{
					{Name: "a", Ctor: sp("fx/lib.NewObj"), Getter: sp(g)},
					{Name: "b", Ctor: sp("fx/lib.NewObj"), Getter: sp(other)},
				}}
				if v&1 != 0 {
					c.Services[0].Must = bp(true)
				} else {
					c.Meta.DefaultMust = bp(true)
				}
				if v&4 != 0 {
					c.Services[1].Todo = bp(false) // spelled out: still a real service
				}
				members = append(members, c01Member{Files: []cfg.Config{c}, Stub: v&2 != 0, Labels: []string{"derived-name-collision-candidate", "getter-pair:" + g + "+" + other, fmt.Sprintf("stub:%v", v&2 != 0)}})
			}
		}
	}
	// (d) configurations that are accepted only because an existence rule is switched off: no parameter declared at all /
	// exactly one / references in every position
	for v := 0; v < 8; v++ {
		idx++
		if !ev.Mine(idx) {
			continue
		}
		c := cfg.Config{Meta: cfg.Meta{Pkg: sp("app")}, Services: []cfg.Service{
			{Name: "a", Ctor: sp("fx/lib.NewObj"), Args: []cfg.Val{cfg.Str("%gone%"), cfg.Str("x%gone2%y%%")}, Fields: []cfg.Field{{Name: "FieldA", Val: cfg.Str("%gone%")}},
				Calls: []cfg.Call{{Method: "Call1", Args: []cfg.Val{cfg.Str("%gone3%")}}}, Tags: []cfg.Tag{{Name: "t"}}, Getter: sp("GetA"), Type: sp("*fx/lib.Obj")},
			{Name: "b", Ctor: sp("fx/lib.NewObj"), Args: []cfg.Val{cfg.Str("@nosvc")}, Fields: []cfg.Field{{Name: "FieldA", Val: cfg.Str("@nosvc2")}}},
		}, Decorators: []cfg.Decorator{{Tag: "t", Fn: "fx/lib.Decorate", Args: []cfg.Val{cfg.Str("%gone4%"), cfg.Str("@nosvc")}}}}
		if v&1 != 0 {
			c.Params = []cfg.Param{{Name: "only", Val: cfg.Str("%gone%")}}
		}
		if v&2 != 0 {
			c.Services = c.Services[:1] // parameters dangle only
			c.Decorators[0].Args = c.Decorators[0].Args[:1]
		}
		members = append(members, c01Member{Files: []cfg.Config{c}, Stub: v&4 != 0, IgnoreP: true, IgnoreS: true,
			Labels: []string{"accepted-under-ignore-flags", fmt.Sprintf("declared-params:%d", len(c.Params)), fmt.Sprintf("stub:%v", v&4 != 0)}})
	}
	for v := 0; v < 4; v++ {
		idx++
		if !ev.Mine(idx) {
			continue
		}
		// nothing but decorators (and perhaps one parameter): services and parameters arrive at run time
		c := cfg.Config{Meta: cfg.Meta{Pkg: sp("app")}, Decorators: []cfg.Decorator{
			{Tag: "t", Fn: "fx/lib.Decorate", Args: []cfg.Val{cfg.Str("@late"), cfg.Str("%gone%"), cfg.Str("!tagged u"), cfg.Str("$gontainer"), cfg.Str("!value fx/lib.GlobalObj")}},
			{Tag: "u", Fn: "fx/lib.Decorate"}}}
		if v&1 != 0 {
			c.Params = []cfg.Param{{Name: "only", Val: cfg.Int(1)}}
		}
		members = append(members, c01Member{Files: []cfg.Config{c}, Stub: v&2 != 0, IgnoreP: true, IgnoreS: true,
			Labels: []string{"accepted-under-ignore-flags", "no-services-declared", fmt.Sprintf("stub:%v", v&2 != 0)}})
	}
	// (e) size: a string of 70,000 characters, a pattern of 1,300 chunks, 300 services (one generated line or block far
	// beyond 64 KiB)
	for v := 0; v < 2; v++ {
		idx++
		if !ev.Mine(idx) {
			continue
		}
		c := cfg.Config{Meta: cfg.Meta{Pkg: sp("app")}, Params: []cfg.Param{{Name: "a", Val: cfg.Str("v")},
			{Name: "blob", Val: cfg.Str(strings.Repeat("0123456789", 7000))}, {Name: "chunks", Val: cfg.Str(strings.Repeat("%a%", 1300))}}}
		for i := 0; i < 300; i++ {
			c.Services = append(c.Services, cfg.Service{Name: fmt.Sprintf("s%03d", i), Ctor: sp("fx/lib.NewObj"), Args: []cfg.Val{cfg.Str("%a%"), cfg.Int(int64(i))}})
		}
		c.Services[0].Args = append(c.Services[0].Args, cfg.Str(strings.Repeat("é", 40000)))
		members = append(members, c01Member{Files: []cfg.Config{c}, Stub: v == 1, Labels: []string{"size:long-lines-and-many-services", fmt.Sprintf("stub:%v", v == 1), "files:1"}})
	}
	for len(members) > 0 {
		n := 32
		if n > len(members) {
			n = len(members)
		}
		c01EvalBatch(t, c01Case{Members: members[:n]})
		members = members[n:]
		if deadlinePassed() {
			return
		}
	}

	// (a) random batches
	batch := pick(20, 32)
	setRapidChecks(pick(5, 45))
	opts := gen.All()
	opts.PkgMain = false
	rapid.Check(t, func(rt *rapid.T) {
		if deadlinePassed() {
			rt.Skip("budget used up")
		}
		var c c01Case
		k := rapid.IntRange(batch/2, batch).Draw(rt, "batch")
		for i := 0; i < k; i++ {
			conf, labels := gen.Valid(rt, opts)
			m := c01Member{
				Style:  cfg.Style{Seed: rapid.Uint64().Draw(rt, "styleseed"), PermKeys: rapid.Bool().Draw(rt, "perm"), Flow: rapid.Bool().Draw(rt, "flow"), Quotes: rapid.Bool().Draw(rt, "quotes"), Blocks: rapid.Bool().Draw(rt, "blocks")},
				Stub:   rapid.IntRange(0, 3).Draw(rt, "stub") == 0,
				Labels: labels.List(),
			}
			m.Files = gen.Split(rt, conf, rapid.IntRange(1, 3).Draw(rt, "nfiles"))
			m.Labels = append(m.Labels, fmt.Sprintf("files:%d", len(m.Files)), fmt.Sprintf("stub:%v", m.Stub))
			c.Members = append(c.Members, m)
		}
		c01EvalBatch(rt, c)
	})
	if !deadlinePassed() {
		col.Complete()
	}
}
