// Package sut adapts the system under test: the in-process build command (through
// the build-tag guarded hook) and the real binary, plus a parser for the report.
package sut

import (
	"bytes"
	"context"
	"errors"
	"fmt"
	"os"
	"os/exec"
	"path/filepath"
	"regexp"
	"strconv"
	"strings"
	"sync"
	"time"
)

// Result of one run of `gontainer build`.
type Result struct {
	Exit     int    // 0 or 1 (in-process: 0 iff RunE returned nil); -1 = panic / timeout / signal
	Stdout   string // everything printed on stdout
	Stderr   string
	Panic    string // recovered panic value + stack (in-process) or crash text (binary)
	TimedOut bool
	Wall     time.Duration
}

// Flags of the build command.
type Flags struct {
	Quiet                 bool
	Stub                  bool
	IgnoreMissingParams   bool
	IgnoreMissingServices bool
	// Spelling: how the switches are written. 0: bare (`--flag` when set, absent otherwise); 1: every switch explicitly
	// (`--flag=true` / `--flag=false`); 2: every switch twice, first with the opposite value (the last occurrence counts);
	// 3: set switches bare, unset ones as `--flag=false`, and all of them in front of -i / -o.
	Spelling int `json:",omitempty"`
}

func (f Flags) Args() []string {
	var a []string
	if f.Spelling != 0 {
		for _, sw := range []struct {
			name string
			on   bool
		}{{"quiet", f.Quiet}, {"stub", f.Stub}, {"ignore-missing-params", f.IgnoreMissingParams}, {"ignore-missing-services", f.IgnoreMissingServices}} {
			switch f.Spelling {
			case 1:
				a = append(a, fmt.Sprintf("--%s=%v", sw.name, sw.on))
			case 2:
				a = append(a, fmt.Sprintf("--%s=%v", sw.name, !sw.on), fmt.Sprintf("--%s=%v", sw.name, sw.on))
			default:
				if sw.on {
					a = append(a, "--"+sw.name)
				} else {
					a = append(a, "--"+sw.name+"=false")
				}
			}
		}
		return a
	}
	if f.Quiet {
		a = append(a, "--quiet")
	}
	if f.Stub {
		a = append(a, "--stub")
	}
	if f.IgnoreMissingParams {
		a = append(a, "--ignore-missing-params")
	}
	if f.IgnoreMissingServices {
		a = append(a, "--ignore-missing-services")
	}
	return a
}

func (f Flags) String() string { return strings.Join(f.Args(), " ") }

// BuildArgs assembles the argument list for `build`.
func BuildArgs(patterns []string, out string, f Flags) []string {
	var a []string
	if f.Spelling == 3 {
		a = append(a, f.Args()...)
	}
	for _, p := range patterns {
		a = append(a, "-i", p)
	}
	a = append(a, "-o", out)
	if f.Spelling != 3 {
		a = append(a, f.Args()...)
	}
	return a
}

// Binary is a compiled gontainer executable.
type Binary struct {
	Path string
}

var (
	binMu    sync.Mutex
	binCache = map[string]*Binary{}
)

// BuildBinary compiles repoDir into dir/name with the given linker version ("" = none).
// It rebuilds from the working tree on every call of a new process; within one
// process results are cached per (repo, version).
func BuildBinary(repoDir, dir, ldVersion string) (*Binary, error) {
	binMu.Lock()
	defer binMu.Unlock()
	key := repoDir + "\x00" + ldVersion
	if b, ok := binCache[key]; ok {
		return b, nil
	}
	if err := os.MkdirAll(dir, 0o755); err != nil {
		return nil, err
	}
	name := fmt.Sprintf("gontainer-%d", len(binCache))
	out := filepath.Join(dir, name)
	if v, ok := strings.CutPrefix(ldVersion, "module:"); ok {
		// the tool built the way `go install github.com/gontainer/gontainer@v<version>` builds it: as a dependency of
		// another module, so that the version comes from the build info and no linker flag is involved
		w := filepath.Join(dir, name+"-wrapper")
		if err := os.MkdirAll(w, 0o755); err != nil {
			return nil, err
		}
		gomod := "module wrapper\n\ngo 1.21\n\nrequire github.com/gontainer/gontainer v" + v + "\n\nreplace github.com/gontainer/gontainer v" + v + " => " + repoDir + "\n"
		_ = os.WriteFile(filepath.Join(w, "go.mod"), []byte(gomod), 0o644)
		_ = os.WriteFile(filepath.Join(w, "tools.go"), []byte("//go:build tools\n\npackage tools\n\nimport _ \"github.com/gontainer/gontainer\"\n"), 0o644)
		if b, err := os.ReadFile(filepath.Join(repoDir, "go.sum")); err == nil {
			_ = os.WriteFile(filepath.Join(w, "go.sum"), b, 0o644)
		}
		cmd := exec.Command("go", "build", "-o", out, "github.com/gontainer/gontainer")
		cmd.Dir = w
		cmd.Env = append(os.Environ(), "GOFLAGS=-mod=mod")
		if b, err := cmd.CombinedOutput(); err != nil {
			return nil, fmt.Errorf("go build (module v%s) %s: %v\n%s", v, repoDir, err, b)
		}
		_ = os.RemoveAll(w)
		b := &Binary{Path: out}
		binCache[key] = b
		return b, nil
	}
	args := []string{"build", "-o", out}
	if ldVersion != "" {
		// "<version>|<extra>": the other variables release builds inject (make build, goreleaser): extra is "dirty" or "clean"
		v, extra, _ := strings.Cut(ldVersion, "|")
		ld := "-X 'main.version=" + v + "'"
		switch extra {
		case "dirty":
			ld += " -X main.isGitDirty=true -X main.commit=0123abc -X main.date=2024-01-02T03:04:05Z -X main.builtBy=verif"
		case "clean":
			ld += " -X main.isGitDirty=false -X main.commit=0123abc -X main.date=2024-01-02T03:04:05Z -X main.builtBy=verif"
		}
		args = append(args, "-ldflags", ld)
	}
	args = append(args, ".")
	cmd := exec.Command("go", args...)
	cmd.Dir = repoDir
	cmd.Env = append(os.Environ(), "GOFLAGS=-mod=mod")
	if b, err := cmd.CombinedOutput(); err != nil {
		return nil, fmt.Errorf("go build %s: %v\n%s", repoDir, err, b)
	}
	b := &Binary{Path: out}
	binCache[key] = b
	return b, nil
}

// Run executes `gontainer build args...` in dir with the given extra environment.
func (b *Binary) Run(dir string, env []string, timeout time.Duration, args ...string) Result {
	ctx, cancel := context.WithTimeout(context.Background(), timeout)
	defer cancel()
	cmd := exec.CommandContext(ctx, b.Path, append([]string{"build"}, args...)...)
	cmd.Dir = dir
	if env != nil {
		cmd.Env = env
	}
	var so, se bytes.Buffer
	cmd.Stdout = &so
	cmd.Stderr = &se
	t0 := time.Now()
	err := cmd.Run()
	r := Result{Stdout: so.String(), Stderr: se.String(), Wall: time.Since(t0)}
	if ctx.Err() != nil {
		r.Exit = -1
		r.TimedOut = true
		return r
	}
	if err == nil {
		return r
	}
	var ee *exec.ExitError
	if errors.As(err, &ee) {
		r.Exit = ee.ExitCode()
		if r.Exit != 1 {
			r.Panic = r.Stderr
			if r.Exit == 0 {
				r.Exit = -1
			}
		}
		return r
	}
	r.Exit = -1
	r.Panic = err.Error()
	return r
}

// ---------------------------------------------------------------------------
// Report parser

// Step is one line pair of the step table.
type Step struct {
	Name    string
	Depth   int
	Mark    string // "ok", "fail", "ignored", "" (no END line seen)
	Count   int    // errors reported on the END line
	HasEnd  bool
	RawLine string
}

// Report is the parsed stdout of a run.
type Report struct {
	Steps      []Step
	Errors     []string // the numbered list (text after "k. ")
	Numbering  []int    // the k of every list line, in order
	HasErrors  bool     // "Errors:" header present
	Unparsed   []string
	Multiline  bool // an error item spans several lines (continuations appended to the item)
	Patterns   []string
	FilesMarks []string
}

var (
	reEnd  = regexp.MustCompile(`^(\s*)(.*?) END·+(\[✓\]|\[⨉\]|ignored)(?: \((\d+) errors?\))?$`)
	reHead = regexp.MustCompile(`^(\s*)(.*?)·+$`)
	reItem = regexp.MustCompile(`^(\d+)\. (.*)$`)
)

// ParseReport parses the printed report.
func ParseReport(stdout string) Report {
	var r Report
	lines := strings.Split(stdout, "\n")
	inErr := false
	for _, ln := range lines {
		if inErr {
			if m := reItem.FindStringSubmatch(ln); m != nil {
				k, _ := strconv.Atoi(m[1])
				// a continuation line of a multi-line error could look like an item; accept
				// it as an item only if it continues the numbering
				if k == len(r.Errors)+1 {
					r.Numbering = append(r.Numbering, k)
					r.Errors = append(r.Errors, m[2])
					continue
				}
			}
			if ln == "" {
				continue
			}
			if len(r.Errors) > 0 {
				r.Errors[len(r.Errors)-1] += "\n" + ln
				r.Multiline = true
			} else {
				r.Unparsed = append(r.Unparsed, ln)
			}
			continue
		}
		if ln == "Errors:" {
			inErr = true
			r.HasErrors = true
			continue
		}
		if m := reEnd.FindStringSubmatch(ln); m != nil {
			st := Step{Name: m[2], Depth: len(m[1]) / 2, HasEnd: true, RawLine: ln}
			switch m[3] {
			case "[✓]":
				st.Mark = "ok"
			case "[⨉]":
				st.Mark = "fail"
			default:
				st.Mark = "ignored"
			}
			if m[4] != "" {
				st.Count, _ = strconv.Atoi(m[4])
			}
			r.Steps = append(r.Steps, st)
			continue
		}
		if reHead.MatchString(ln) {
			continue
		}
		t := strings.TrimSpace(ln)
		switch {
		case t == "" || t == "Patterns" || t == "No files" || t == "Generating source code":
		case strings.HasPrefix(t, "Printing to the file"):
		case strings.HasPrefix(t, "• "):
			r.FilesMarks = append(r.FilesMarks, t)
		case reItem.MatchString(t):
			r.Patterns = append(r.Patterns, t)
		default:
			r.Unparsed = append(r.Unparsed, ln)
		}
	}
	return r
}

// StepByName returns the step with the given name.
func (r Report) StepByName(n string) (Step, bool) {
	for _, s := range r.Steps {
		if s.Name == n {
			return s, true
		}
	}
	return Step{}, false
}

// FailingTop returns the outermost (depth 0) failing step.
func (r Report) FailingTop() (Step, bool) {
	for _, s := range r.Steps {
		if s.Depth == 0 && s.Mark == "fail" {
			return s, true
		}
	}
	return Step{}, false
}

// Fact is one diagnostic reduced to what it names.
type Fact struct {
	Class string // version, meta, param-name, param-type, service, decorator, token, arg, missing-param, missing-service, cycle, scope, read, other
	A     string // key / referrer
	B     string // name / detail
}

func (f Fact) String() string { return f.Class + "|" + f.A + "|" + f.B }

func unq(s string) string {
	if u, err := strconv.Unquote(s); err == nil {
		return u
	}
	return s
}

var (
	reMissP  = regexp.MustCompile(`^output\.ValidateParamsExist: ("(?:[^"\\]|\\.)*"): param ("(?:[^"\\]|\\.)*") does not exist$`)
	reMissS  = regexp.MustCompile(`^output\.ValidateServicesExist: ("(?:[^"\\]|\\.)*"): service ("(?:[^"\\]|\\.)*") does not exist$`)
	reMissSD = regexp.MustCompile(`^output\.ValidateServicesExist: decorator\(#(\d+), ("(?:[^"\\]|\\.)*")\): service ("(?:[^"\\]|\\.)*") does not exist$`)
	reMissPD = regexp.MustCompile(`^output\.ValidateParamsExist: decorator\(#(\d+), ("(?:[^"\\]|\\.)*")\): param ("(?:[^"\\]|\\.)*") does not exist$`)
	reScope  = regexp.MustCompile(`^output\.ValidateServicesScopes: ("(?:[^"\\]|\\.)*"): service is shared, but dependant ("(?:[^"\\]|\\.)*") is contextual$`)
	reCycle  = regexp.MustCompile(`^output\.ValidateCircularDeps: (.*)$`)
	reQuoted = regexp.MustCompile(`^("(?:[^"\\]|\\.)*"): (.*)$`)
)

// ParseFacts reduces the numbered list to facts. Unknown shapes become class "other"
// carrying the whole text, so nothing is silently dropped.
func ParseFacts(errs []string) []Fact {
	var fs []Fact
	for _, e := range errs {
		fs = append(fs, parseFact(e))
	}
	return fs
}

func parseFact(e string) Fact {
	if m := reMissP.FindStringSubmatch(e); m != nil {
		return Fact{"missing-param", unq(m[1]), unq(m[2])}
	}
	if m := reMissPD.FindStringSubmatch(e); m != nil {
		return Fact{"missing-param", "decorator#" + m[1], unq(m[3])}
	}
	if m := reMissSD.FindStringSubmatch(e); m != nil {
		return Fact{"missing-service", "decorator#" + m[1], unq(m[3])}
	}
	if m := reMissS.FindStringSubmatch(e); m != nil {
		return Fact{"missing-service", unq(m[1]), unq(m[2])}
	}
	if m := reScope.FindStringSubmatch(e); m != nil {
		return Fact{"scope", unq(m[1]), unq(m[2])}
	}
	if m := reCycle.FindStringSubmatch(e); m != nil {
		return Fact{"cycle", m[1], ""}
	}
	for _, p := range []struct{ prefix, class string }{
		{"compiler.StepValidateInput: version: ", "version"},
		{"compiler.StepValidateInput: meta: ", "meta"},
		{"compiler.StepValidateInput: parameters: ", "param"},
		{"compiler.StepValidateInput: services: ", "service"},
		{"compiler.StepValidateInput: decorators: ", "decorator"},
		{"compiler.StepCompileMeta: ", "compile-meta"},
		{"compiler.StepCompileParams: ", "compile-param"},
		{"compiler.StepCompileServices: ", "compile-service"},
		{"compiler.StepCompileDecorators: ", "compile-decorator"},
		{"runner.StepReadConfig: ", "read"},
		{"CodeFormatter.Format: ", "format"},
	} {
		if strings.HasPrefix(e, p.prefix) {
			rest := e[len(p.prefix):]
			switch p.class {
			case "param", "service", "compile-param", "compile-service":
				if m := reQuoted.FindStringSubmatch(rest); m != nil {
					return Fact{p.class, unq(m[1]), m[2]}
				}
			case "decorator":
				// `0 "Dec": tag: invalid ...`
				if i := strings.Index(rest, " "); i > 0 {
					if _, err := strconv.Atoi(rest[:i]); err == nil {
						return Fact{p.class, rest[:i], rest[i+1:]}
					}
				}
			case "compile-decorator":
				// `#0 "Dec": args: 0: ...`
				if strings.HasPrefix(rest, "#") {
					if i := strings.Index(rest, " "); i > 0 {
						return Fact{p.class, rest[1:i], rest[i+1:]}
					}
				}
			}
			return Fact{p.class, "", rest}
		}
	}
	return Fact{"other", "", e}
}

// FileState captures everything the contract says must be left unchanged.
type FileState struct {
	Exists  bool
	IsDir   bool
	Mode    os.FileMode
	Size    int64
	ModTime time.Time
	Content string // for regular files
	Link    string // symlink target
}

func StatPath(p string) FileState {
	var s FileState
	li, err := os.Lstat(p)
	if err != nil {
		return s
	}
	s.Exists = true
	s.Mode = li.Mode()
	if li.Mode()&os.ModeSymlink != 0 {
		s.Link, _ = os.Readlink(p)
		return s
	}
	s.IsDir = li.IsDir()
	s.Size = li.Size()
	s.ModTime = li.ModTime()
	if li.Mode().IsRegular() {
		b, _ := os.ReadFile(p)
		s.Content = string(b)
	}
	return s
}

func (a FileState) Equal(b FileState) bool {
	return a.Exists == b.Exists && a.IsDir == b.IsDir && a.Mode == b.Mode && a.Size == b.Size &&
		a.ModTime.Equal(b.ModTime) && a.Content == b.Content && a.Link == b.Link
}
