//go:build verif

package sut

import (
	"bytes"
	"fmt"
	"runtime/debug"
	"time"

	"github.com/gontainer/gontainer/verifhook"
)

// RunInproc runs a fresh build command in this process. version is what main would
// pass after stripping the leading "v"; buildInfo goes into the header comment.
func RunInproc(version, buildInfo string, args ...string) (r Result) {
	var so, se bytes.Buffer
	t0 := time.Now()
	defer func() {
		r.Wall = time.Since(t0)
		r.Stdout = so.String()
		r.Stderr = se.String()
		if p := recover(); p != nil {
			r.Exit = -1
			r.Panic = fmt.Sprintf("%v\n%s", p, debug.Stack())
		}
	}()
	cmd := verifhook.NewBuildCmd(version, buildInfo)
	cmd.SetArgs(args)
	cmd.SetOut(&so)
	cmd.SetErr(&se)
	if err := cmd.Execute(); err != nil {
		r.Exit = 1
	}
	return r
}
