module verifh

go 1.23

require (
	github.com/gontainer/gontainer v0.0.0
	github.com/gontainer/gontainer-helpers/v3 v3.0.0-20231102220126-cd3ac9fbe738
	github.com/spf13/cobra v1.8.0
	gopkg.in/yaml.v3 v3.0.1
	pgregory.net/rapid v1.3.0
)

require (
	github.com/fatih/color v1.16.0 // indirect
	github.com/mattn/go-colorable v0.1.13 // indirect
	github.com/mattn/go-isatty v0.0.20 // indirect
	github.com/spf13/pflag v1.0.5 // indirect
	golang.org/x/mod v0.17.0 // indirect
	golang.org/x/sys v0.19.0 // indirect
	golang.org/x/tools v0.20.0 // indirect
	gonum.org/v1/gonum v0.14.0 // indirect
)

replace github.com/gontainer/gontainer => /repo
