package main

import "time"

var _ = time.Second

func init() {
	reg("C11", propCfg{
		index: 11,
		rule: "(a) bounded exhaustive: every string of length <= 3 (quick) / <= 4 (thorough; 5 for the name positions) over {a, Z, 1, ., -, _, /, \", *, &, {, }, space} in each of 22 grammar positions (parameter / service / tag / alias names; import path; function name and Go function; getter; type; value; constructor; call method; field name; decorator tag and method; @service, !tagged and !value arguments in constructor, field, call and decorator positions; meta pkg / container_type / container_constructor), 400 candidates per configuration on separate keys; (b) rapid: valid forms generated from the documented grammar (up to &\"a/b\".C.d.e{} shapes) with 0..2 character edits; (c) 80+ hand-enumerated documents for wrong YAML node kinds at schema positions, call and tag shapes, scope keywords, the creation-method rules, must_getter without getter, and the todo exemption; (d) rapid: generated configurations with 2..5 simultaneous grammar violations on different keys. Oracle: hand-written recursive recognisers (no regular expressions) for every position; accepted iff all recognised; the set of (key, attribute) pairs named by the diagnostics must equal the set the recognisers reject, all in one run. Non-trivial = the candidate is not a plain lowercase word, and every document of (c)/(d); distinct by hash of (position, string)",
		assume: []string{
			"node-kind confusion is limited to collection<->scalar and null (robust yaml.v3 semantics); scalars of another YAML type in string positions are not asserted",
			"meta.imports targets: quoted targets match the grammar and are judged by the grammar only",
		},
	})
	reg("C03", propCfg{
		index: 3,
		rule: "(a) bounded exhaustive: every string of length <= 3 (quick) / <= 5 (thorough) over {%, a, 1, ., -, (, ), \", space, é} as parameter value, and every string of length <= 3 as service argument and as decorator argument (batches of 400 candidates on separate keys); every name reachable in the alphabet is declared with one value of each literal type and `a` is also a registered function. Pass 1: the set of keys named by the token diagnostics must equal the set the reference pattern parser rejects (unbalanced %, unknown function, malformed token). Pass 2: the accepted candidates are compiled and every GetParam / injected argument is compared by Go type and value with the reference evaluation (%% -> %, reference keeps the type when it is the only chunk, several chunks concatenate the documented casts). (b) round trip: rapid Unicode strings (quotes, backslashes, newlines, control characters, BOM, bidi, astral runes) with every % doubled must evaluate to the original; the undoubled strings are checked for the verdict. (c) rapid chunk sequences over text, %%, references to parameters of every literal type and calls of env / envInt / todo / user functions with the environment variable set, unset, numeric and non-numeric, against the DI interpreter (errors must name the token). Non-trivial = the string contains at least one %; distinct by hash of (position, string)",
		assume: []string{"function-call tokens whose argument text is not a list of Go literals are checked for the build-time verdict only (documented precondition), counted under excluded"},
	})
	reg("C20", propCfg{
		index: 20,
		rule: "cases are accepted configurations from the scope-heavy behavioural generator (shared, contextual, non_shared services; parameters with counted functions, multi-chunk patterns, env readers) with a rapid-drawn concurrent script: 1..3 rounds, each on a fresh container with 4, 16 or 64 goroutines released by a barrier, each running one of 1..4 drawn programmes of Get / GetInContext(A|B) / GetParam / GetTaggedBy, Gosched at drawn points, GOMAXPROCS 2 or 16; the probe is built with -race (halt_on_error). Oracle: no race report, crash or deadlock; every result structurally equals the sequential DI model's; every shared service has one instance serial over all goroutines; a contextual service has one instance per attached context and never the same in two contexts; Count-ed parameter functions that only occur in parameters ran exactly as often as in the sequential model (each parameter evaluated at most once). Non-trivial = a round with at least two goroutines; distinct by hash of (configuration, style, script)",
		assume: []string{"the harness does not own the Go scheduler: schedules are sampled under the race detector, not enumerated"},
	})
	reg("C17", propCfg{
		index: 17,
		rule: "cases are configurations from the full generator (accepted ones) and the same with one injected defect (rejected ones); every case is run in normal and in --stub mode and the two are compared pairwise: same accept/reject decision with the same diagnostic facts; the stub starts with the //go:build gontainerstub and // +build gontainerstub lines; identical package clause and identical set of declared types, functions and methods with identical signatures (go/parser, private runtime helpers excluded); both are compiled (stub with -tags gontainerstub) and reflected in a probe: equal type name and exported method sets with identical fully-qualified signatures; the stub additionally compiles against a variant of the fixture module whose user packages declare types only; calling the stub constructor and every stub getter / must-getter panics with \"stub\". Non-trivial = a configuration with at least one getter that has a declared type; distinct by hash of (configuration, style)",
		assume: []string{"rejected configurations are compared on verdict and diagnostics only"},
	})
	reg("C15", propCfg{
		index: 15,
		rule: "(1) build time: configurations whose only definitions are todo parameters / todo services (with dependants, and with otherwise invalid attributes on a todo service) must be accepted. (2) exhaustive: every history of length <= 3 (quick) / <= 4 (thorough) over {GetParam, Get, GetTaggedBy, OverrideParam(int|string), OverrideService(marker)} on two small configurations (todo parameter with and without message, dependent parameters, counted parameter functions, todo service with shared / default / non_shared dependants, a decorator), each history on a fresh container, followed by the invocation counters. (3) random: behavioural configurations with 0..3 definitions turned into todo placeholders and a rapid-drawn history of 2..8 operations with counters before, between and after. Oracle: DI interpreter with the runtime's documented caching (todo always errors with the given message / 'parameter todo' / 'service todo'; after an override every dependant not yet cached receives the overriding value, cached shared services and parameters keep theirs, errors are never cached) and invocation counters (zero after construction, only what was needed afterwards). Non-trivial = a history containing an override followed by a read; distinct by hash",
		assume: []string{"override values are int, string, bool, float literals; override services are marker objects with default scope and no tags"},
	})
	reg("C14", propCfg{
		index: 14,
		rule: "cases are accepted configurations from an alias-heavy behavioural generator: 3..5 fixture packages with confusable paths (fx/lib, fx/libx, fx/lib/sub, fx/a/lib, fx/b/lib, fx/my-lib.v2, fx/os, fx/fmt, fx/errors, fx/context, fx/reflect, fx/strconv), 2..6 aliases drawn from pools of names that are string prefixes of other aliases, of referenced paths' first segments and of the packages the template imports, aliases of path prefixes, and references in constructor, value, type, !value, decorator and function positions in all five spellings (bare alias, alias + sub-path, unquoted full path, quoted full path, \".\"). Every fixture package exports identical self-identifying symbols, so the probe reads which package arrived: object package IDs and getter signature types must equal what the alias rule (whole first segment) denotes; the import block (go/parser) has no path twice, no shared local name, imports no fixture package that no reference denotes, and every package an object came from. Non-trivial = the alias table contains an alias that is a proper string prefix of another alias, of a referenced path's first segment or of a template import; distinct by hash",
		assume: []string{"aliases named exactly like a package the template imports are excluded by construction here (open known finding of C01, probed there)"},
	})
	reg("C13", propCfg{
		index: 13,
		rule: "(1) rejections, enumerated completely: every method name and the embedded field name of the runtime container as getter, Must-prefix and InContext-suffix variants, the 18-row truth table must_getter x default_must_getter x getter present, equal getters on two services (also with a todo service). (2) accepted configurations from the behavioural generator over getter x type form (none, pointer, struct, interface, named int/slice/func, every import spelling, own package) x must_getter x default_must_getter x meta names: the probe reflects the method set of the generated pointer type, which must equal promoted(*container.Container) + {G, GInContext, and MustG/MustGInContext exactly when the rule says} with exact fully-qualified signatures and the configured type name; G() and GInContext() must return what Get(name) returns (same instance by the scope rules), errors for failing/todo-dependent services, MustG panics on them. (3) the documented defaults main / Gontainer / NewGontainer, linked as their own binary. Non-trivial = a getter with an explicit or default must setting or a non-pointer type, and every rejection case; distinct by hash",
		assume: []string{"the expected promoted API is read by reflection from the pinned runtime the harness links"},
	})
	reg("C05", propCfg{
		index: 5,
		rule: "(a) verdict: every acyclic dependency graph on 2 and 3 services x edge kind {argument, field, call argument, !tagged through a tag, decorator-on-tag with a dependency} x every assignment of {unset, shared, contextual, non_shared} (thorough: additionally rapid-sampled graphs on 3..4 services with mixed edge kinds): rejected in the Scope step iff a declared-shared service reaches a declared-contextual one, and the reported (shared, contextual) pairs equal the model's. (b) behaviour: scope-heavy accepted configurations with a rapid-drawn history of 2..8 Get / GetInContext(A|B) / GetTaggedBy operations; the DI interpreter predicts the partition of all object occurrences into instances (shared: one per container; non_shared: fresh per injection and per Get; contextual: one per Get call tree or attached context, never across contexts; unset: contextual iff it transitively reaches a declared contextual service), compared with instance serial numbers modulo a bijection. Non-trivial = (a) a graph with at least one edge and a shared or contextual declaration, (b) a contextual or non_shared service referenced by another service and a history of >= 2 operations; distinct by hash",
		assume: []string{"cyclic graphs belong to C07 and are not enumerated here"},
	})
	reg("C04", propCfg{
		index: 4,
		rule: "cases are accepted configurations from a tag-heavy behavioural generator (2..6 services sharing up to 3 tags, priorities from a small set with ties, negative and minimal values, several tags per service, 1..4 decorators with every argument form, consumers using !tagged in arguments, fields and calls, split over 1..3 files so that decorator and tag order is file order). The probe asks for every service and GetTaggedBy of every tag. Oracle: the DI interpreter predicts the injected slices (exactly the tagged services, priority descending then name ascending), each element's own build, and the decorator chain (after the service's calls, declaration order, payload tag/service name/current object followed by declared arguments, result replaces the service). Non-trivial = a tag shared by >= 2 services with a priority tie or a negative priority, or >= 2 decorators applying to one service; distinct by hash of (files, style, script)",
		assume: []string{"decorator tag * is not used behaviourally (the pinned runtime gives it no meaning)"},
	})
	reg("C02", propCfg{
		index: 2,
		rule: "cases are accepted configurations from the behavioural generator (acyclic service graphs, every creation method, every argument form of the resolver chain at every position, fields, calls, withers, pointer and value receivers, scopes, todo services and failing constructors with dependants, 1..2 files), each compiled and linked with the real runtime; a probe asks for every parameter, service and tag. Oracle: a DI interpreter written from the documentation predicts for every result the descriptor tree {origin, package, arguments in order, fields, call log, wither/decorator chain} and which results must be errors; descriptors are compared modulo a bijection of instance serial numbers. Non-trivial = a service with two arguments of different forms, or fields and calls, or a wither; distinct by hash of (files, style, script)",
		assume: []string{
			"package-level pointer values (GlobalObj, Holder.Field) get no fields/calls in generated configurations because they are shared by all containers of a probe process",
			"literals compare by Go type and value, NaN = NaN, the sign of zero is not claimed",
		},
	})
	reg("C16", propCfg{
		index: 16,
		rule: "cases are configurations carrying any mix of {dangling parameters, dangling services, cycles, scope conflicts, grammar/token defects, none}: all 32 subsets on a fixed base and rapid-generated valid configurations with 0..4 injected defects; each case is run under all four combinations of --ignore-missing-params / --ignore-missing-services. Oracle: (model) the reference verdict and fact set under each flag combination; (metamorphic) the parsed fact set under flags F equals the unflagged fact set with exactly the ignored classes removed, cycle lines unchanged, accepted iff nothing remains, the step table marks exactly the switched-off rules as ignored, and an accepted configuration yields byte-identical output under all four. Non-trivial = an ignorable defect together with a defect of another class, or an accepted configuration compared across all four combinations; distinct by hash of (configuration, style)",
		assume: []string{"diagnostics are compared as fact sets parsed from the numbered list"},
	})
	reg("C07", propCfg{
		index: 7,
		rule: "cases are explicit dependency structures rendered as configurations: exhaustively all 512 reference structures on 3 parameters, all structures of <= 4 @service edges on 3 services, the bit-vector space of 2 services x 2 tags x 1..2 decorators over {@service, carries tag, !tagged, decorator-on-tag, decorator->service/tag} (complete in the thorough tier, every 37th in quick), and rapid-generated sparse graphs (<= 8 services, 4 tags, 3 decorators, 6 parameters) with self-loops and overlapping cycles. Oracle: own graph + Tarjan SCC: rejected in the cycle step iff cyclic; every reported line is a closed walk along reference edges; the union of nodes on reported cycles equals the nodes lying on a cycle; accepted containers are compiled and probed (CircularDeps() nil, every GetParam/Get terminates without error). Non-trivial = cyclic, or acyclic with at least one tag/decorator edge; distinct by hash of the structure",
		assume: []string{"structures with a strongly connected component of more than 7 nodes and more than 24 internal edges are skipped and counted (cycle enumeration is exponential; the property excludes them)"},
	})
	reg("C06", propCfg{
		index: 6,
		rule: "cases are configurations with references removed, renamed or added at every position a reference can occur in (parameter chunk single / multi-chunk / after %%, constructor argument, call argument, field value, decorator argument), todo parameters and services as targets: an exhaustive position x reference-text matrix on a fixed base plus rapid-generated valid configurations with 1..4 random mutations. The verdict and the set of (referrer, missing name) facts parsed from the report are compared with the reference model; accepted configurations are compiled and probed (no Get/GetParam error may say 'does not exist'). Non-trivial = at least one dangling reference, or a reference to a todo target; distinct by hash of (configuration, style)",
		assume: []string{"diagnostics are compared as sets of (class, referrer, name) facts, wording is not compared"},
	})
	reg("C01", propCfg{
		index: 1,
		rule: "cases are configurations valid by construction over a fixture universe in which every referenced Go symbol exists: (a) rapid-generated batches (creation method x value/type forms x getters x scopes x tags/calls/withers/fields/decorators x parameter literal types and pattern shapes x import spellings and alias tables x 1..3 input files x {normal, --stub}); (b) a feature lattice of hand-minimal configurations, every single feature in both modes and feature pairs. Each accepted output is checked for gofmt-stability, complete parse, header and build constraint, compiled with the real Go toolchain against the pinned runtime inside the fixture module, linked into a probe and initialised. Non-trivial = at least one service and at least three distinct feature labels; distinct by hash of (files, style, mode)",
		assume: []string{
			"configured identifiers come from pools that exclude Go keywords, predeclared names and the fixture catalog (the property's precondition)",
			"configurations the tool rejects are counted under excluded.rejected-by-tool and are not C01's concern",
		},
	})
	reg("C18", propCfg{
		index: 18,
		rule: "cases are (build version B, declared version V) pairs: the full 96x96 grid (majors 0..3 x minors 0..3 x patches {0,7} x {release,-rc.1,+build5}), non-semver builds, absent and 17 malformed declared versions, random strict semvers beyond the grid (huge numbers, long prerelease/build suffixes), and a sample through binaries linked with -X main.version; each is run end to end and the verdict (accept / reject in the version check / YAML parse error) is compared with an independent strict-semver implementation of the stated rule. Non-trivial = B and V both valid semantic versions, V is a string and V != B; distinct by hash of the case",
		assume: []string{
			"shorthand versions (1, 1.2) are outside the domain for B and V",
			"in-process cases pass B exactly as main.go would after stripping the v prefix; the binary cases cover main.go itself",
		},
	})
}
