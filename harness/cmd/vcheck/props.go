package main

import "time"

var _ = time.Second

func init() {
	reg("C01", propCfg{
		index: 1,
		rule: "cases are configurations valid by construction over a fixture universe in which every referenced Go symbol exists: (a) rapid-generated batches (creation method x value/type forms x getters x scopes x tags/calls/withers/fields/decorators x parameter literal types and pattern shapes x import spellings and alias tables x 1..3 input files x {normal, --stub}); (b) a feature lattice of hand-minimal configurations, every single feature in both modes and feature pairs. Each accepted output is checked for gofmt-stability, complete parse, header and build constraint, compiled with the real Go toolchain against the pinned runtime inside the fixture module, linked into a probe and initialised. Non-trivial = at least one service and at least three distinct feature labels; distinct by hash of (files, style, mode)",
		assume: []string{
			"configured identifiers come from pools that exclude Go keywords, predeclared names and the fixture catalog (the property's precondition)",
			"configurations the tool rejects are counted under excluded.rejected-by-tool and are not C01's concern",
		},
	})
	reg("C18", propCfg{
		index: 18,
		rule: "cases are (build version B, declared version V) pairs: the full 96x96 grid (majors 0..3 x minors 0..3 x patches {0,7} x {release,-rc.1,+build5}), non-semver builds, absent and 17 malformed declared versions, random strict semvers beyond the grid (huge numbers, long prerelease/build suffixes), and a sample through binaries linked with -X main.version; each is run end to end and the verdict (accept / reject in the version check / YAML parse error) is compared with an independent strict-semver implementation of the stated rule. Non-trivial = B and V both valid semantic versions, V is a string and V != B; distinct by hash of the case",
		assume: []string{
			"shorthand versions (1, 1.2) are outside the domain for B and V",
			"in-process cases pass B exactly as main.go would after stripping the v prefix; the binary cases cover main.go itself",
		},
	})
}
