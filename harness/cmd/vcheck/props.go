package main

import "time"

var _ = time.Second

func init() {
	reg("C18", propCfg{
		index: 18,
		rule: "cases are (build version B, declared version V) pairs: the full 96x96 grid (majors 0..3 x minors 0..3 x patches {0,7} x {release,-rc.1,+build5}), non-semver builds, absent and 17 malformed declared versions, random strict semvers beyond the grid (huge numbers, long prerelease/build suffixes), and a sample through binaries linked with -X main.version; each is run end to end and the verdict (accept / reject in the version check / YAML parse error) is compared with an independent strict-semver implementation of the stated rule. Non-trivial = B and V both valid semantic versions, V is a string and V != B; distinct by hash of the case",
		assume: []string{
			"shorthand versions (1, 1.2) are outside the domain for B and V",
			"in-process cases pass B exactly as main.go would after stripping the v prefix; the binary cases cover main.go itself",
		},
	})
}
