// vcheck is the driver behind every MANIFEST command:
//
//	vcheck <ID> quick|thorough [--replay file]
//
// It compiles the check binary against $VERIF_REPO's working tree (build tag verif),
// runs it in S shard processes with derived seeds, merges the shard evidence into
// $VERIF_DIR/evidence/<ID>.json and maps the outcome to the exit-code protocol:
// 0 held, 1 + "VIOLATION property=<id> replay=<path>", 2 infrastructure/inconclusive.
package main

import (
	"encoding/json"
	"fmt"
	"os"
	"os/exec"
	"path/filepath"
	"sort"
	"strconv"
	"strings"
	"sync"
	"time"

	"verifh/ev"
	"verifh/fx"
)

type propCfg struct {
	index    int
	level    string
	shardsQ  int
	shardsT  int
	timeoutQ time.Duration
	timeoutT time.Duration
	rule     string
	assume   []string
}

var props = map[string]propCfg{}

func reg(id string, c propCfg) {
	if c.shardsQ == 0 {
		c.shardsQ = 16
	}
	if c.shardsT == 0 {
		c.shardsT = 16
	}
	if c.timeoutQ == 0 {
		c.timeoutQ = 15 * time.Minute
	}
	if c.timeoutT == 0 {
		c.timeoutT = 90 * time.Minute
	}
	if c.level == "" {
		c.level = "exploration"
	}
	props[id] = c
}

func main() {
	os.Exit(run())
}

func run() int {
	if len(os.Args) == 2 && os.Args[1] == "warm" {
		// used by setup.sh: create the base build cache
		scratch, err := os.MkdirTemp(os.Getenv("VERIF_TMP"), "verif-warm-")
		if err != nil {
			fmt.Fprintln(os.Stderr, err)
			return 2
		}
		defer os.RemoveAll(scratch)
		guardDefaultCache()
		if _, err := ensureBaseCache(ev.VerifDir(), ev.RepoDir(), scratch); err != nil {
			fmt.Fprintln(os.Stderr, err)
			return 2
		}
		return 0
	}
	if len(os.Args) < 3 {
		fmt.Fprintln(os.Stderr, "usage: vcheck <ID> quick|thorough [--replay file]")
		return 2
	}
	id, tier := os.Args[1], os.Args[2]
	replay := ""
	for i := 3; i < len(os.Args); i++ {
		if os.Args[i] == "--replay" && i+1 < len(os.Args) {
			replay = os.Args[i+1]
			i++
		}
	}
	pc, ok := props[id]
	if !ok {
		fmt.Fprintf(os.Stderr, "unknown property %s\n", id)
		return 2
	}
	if tier != "quick" && tier != "thorough" {
		fmt.Fprintf(os.Stderr, "unknown tier %s\n", tier)
		return 2
	}
	t0 := time.Now()
	verifDir := ev.VerifDir()
	repo := ev.RepoDir()
	seed := ev.Seed()

	scratch, err := os.MkdirTemp(os.Getenv("VERIF_TMP"), "verif-"+id+"-")
	if err != nil {
		fmt.Fprintln(os.Stderr, "mktemp:", err)
		return 2
	}
	defer os.RemoveAll(scratch)

	// 0. build caches: the default cache is trimmed when it grew large; a base cache with the standard library,
	// the runtime library and the fixture packages seeds the private caches of the shards
	guardDefaultCache()
	baseCache, err := ensureBaseCache(verifDir, repo, scratch)
	if err != nil {
		fmt.Printf("INFRA: %v\n", err)
		return 2
	}

	// 1. build the check binary from the current working tree of the repository
	bin := filepath.Join(scratch, "checks.test")
	build := exec.Command("go", "test", "-c", "-tags", "verif", "-o", bin, "./checks")
	build.Dir = filepath.Join(verifDir, "harness")
	if mf := os.Getenv("VERIF_MODFILE"); mf != "" {
		build.Args = append(build.Args[:3], append([]string{"-modfile", mf}, build.Args[3:]...)...)
	}
	if out, err := build.CombinedOutput(); err != nil {
		fmt.Printf("INFRA: cannot build checks against %s: %v\n%s\n", repo, err, tail(string(out), 60))
		return 2
	}

	shards := pc.shardsQ
	timeout := pc.timeoutQ
	if tier == "thorough" {
		shards = pc.shardsT
		timeout = pc.timeoutT
	}
	if v := os.Getenv("VERIF_SHARDS"); v != "" {
		if n, err := strconv.Atoi(v); err == nil && n > 0 {
			shards = n
		}
	}
	if replay != "" {
		shards = 1
		if !filepath.IsAbs(replay) {
			replay = filepath.Join(ev.Env("VERIF_CWD", "."), replay)
		}
	}

	type shardRes struct {
		dir      string
		exit     int
		timedOut bool
		log      string
	}
	res := make([]shardRes, shards)
	var wg sync.WaitGroup
	for i := 0; i < shards; i++ {
		wg.Add(1)
		go func(i int) {
			defer wg.Done()
			dir := filepath.Join(scratch, fmt.Sprintf("shard%02d", i))
			_ = os.MkdirAll(filepath.Join(dir, "tmp"), 0o755)
			rseed := 1 + ((int64(seed)*1000003 + int64(i)*7919 + int64(pc.index)) % (1<<31 - 2))
			if rseed <= 0 {
				rseed = -rseed + 1
			}
			args := []string{
				"-test.run", "^Test" + id + "$",
				"-test.timeout", (timeout + time.Minute).String(),
				"-test.count", "1",
				"-rapid.seed", strconv.FormatInt(rseed, 10),
				"-rapid.nofailfile",
				"-rapid.shrinktime", map[string]string{"quick": "45s", "thorough": "3m"}[tier],
			}
			cmd := exec.Command(bin, args...)
			cmd.Dir = dir
			cmd.Env = append(os.Environ(),
				"VERIF_PROPERTY="+id,
				"VERIF_TIER="+tier,
				"VERIF_SHARD="+strconv.Itoa(i),
				"VERIF_NSHARDS="+strconv.Itoa(shards),
				"VERIF_SEED="+strconv.Itoa(seed),
				"VERIF_OUT="+dir,
				"VERIF_SCRATCH="+filepath.Join(dir, "tmp"),
				"VERIF_REPO="+repo,
				"VERIF_DIR="+verifDir,
				"VERIF_REPLAY="+replay,
				"VERIF_DEADLINE="+strconv.FormatInt(time.Now().Add(timeout).Unix(), 10),
				"VERIF_GOCACHE_BASE="+baseCache,
				"TMPDIR="+filepath.Join(dir, "tmp"),
			)
			logf, _ := os.Create(filepath.Join(dir, "log"))
			cmd.Stdout = logf
			cmd.Stderr = logf
			done := make(chan error, 1)
			if err := cmd.Start(); err != nil {
				res[i] = shardRes{dir: dir, exit: 2, log: err.Error()}
				return
			}
			go func() { done <- cmd.Wait() }()
			var werr error
			to := false
			select {
			case werr = <-done:
			case <-time.After(timeout + 2*time.Minute):
				_ = cmd.Process.Kill()
				werr = <-done
				to = true
			}
			logf.Close()
			lb, _ := os.ReadFile(filepath.Join(dir, "log"))
			r := shardRes{dir: dir, timedOut: to, log: string(lb)}
			if werr != nil {
				r.exit = 1
				if ee, ok := werr.(*exec.ExitError); ok {
					r.exit = ee.ExitCode()
				}
			}
			res[i] = r
		}(i)
	}
	wg.Wait()

	// 2. merge
	merged := ev.Shard{Labels: map[string]int{}, Excluded: map[string]int{}, Known: map[string]string{}}
	nt := map[uint64]struct{}{}
	exhParts := map[string]int{}
	infra := []string{}
	var violFiles []string
	incomplete := 0
	kindCount := map[string]int{}
	for i, r := range res {
		var s ev.Shard
		b, err := os.ReadFile(filepath.Join(r.dir, "shard.json"))
		if err == nil {
			err = json.Unmarshal(b, &s)
		}
		if err != nil {
			infra = append(infra, fmt.Sprintf("shard %d wrote no evidence (exit %d)\n%s", i, r.exit, tail(r.log, 40)))
			continue
		}
		merged.Evaluations += s.Evaluations
		for _, h := range s.NonTrivial {
			nt[h] = struct{}{}
		}
		for k, v := range s.Labels {
			merged.Labels[k] += v
		}
		for k, v := range s.Excluded {
			merged.Excluded[k] += v
		}
		for k, v := range s.Known {
			if _, ok := merged.Known[k]; !ok {
				merged.Known[k] = v
			}
		}
		for _, p := range s.Exhaustive {
			exhParts[p]++
		}
		for _, n := range s.Notes {
			dup := false
			for _, m := range merged.Notes {
				dup = dup || m == n
			}
			if !dup {
				merged.Notes = append(merged.Notes, n)
			}
		}
		for _, sm := range s.Samples {
			kind := ""
			if m, ok := sm.(map[string]any); ok {
				kind, _ = m["kind"].(string)
			}
			if kindCount[kind] < 3 && len(merged.Samples) < 24 {
				kindCount[kind]++
				merged.Samples = append(merged.Samples, sm)
			}
		}
		vf := filepath.Join(r.dir, "violation.json")
		_, verr := os.Stat(vf)
		switch {
		case r.exit != 0 && verr == nil:
			violFiles = append(violFiles, vf)
		case r.exit != 0:
			infra = append(infra, fmt.Sprintf("shard %d failed without a recorded violation (exit %d, timedOut=%v)\n%s", i, r.exit, r.timedOut, tail(r.log, 60)))
		case !s.Completed:
			incomplete++
		}
	}

	if os.Getenv("VERIF_KEEPGOING") != "" {
		seen := map[string]bool{}
		for _, r := range res {
			for _, ln := range strings.Split(r.log, "\n") {
				if i := strings.Index(ln, "KEEPGOING "); i >= 0 {
					k := strings.SplitN(ln[i:], " :: ", 2)[0]
					if !seen[k] {
						seen[k] = true
						fmt.Println(ln[i:])
					}
				}
			}
		}
	}
	wall := time.Since(t0).Seconds()
	exh := len(exhParts) > 0
	for _, n := range exhParts {
		exh = exh && n == shards // every shard finished its slice of every exhaustive part
	}
	var exhList []string
	for p := range exhParts {
		exhList = append(exhList, p)
	}
	sort.Strings(exhList)
	var knownKeys []string
	for k := range merged.Known {
		knownKeys = append(knownKeys, k)
	}
	sort.Strings(knownKeys)

	// 3. evidence (written on every run, also on violation)
	if replay == "" {
		cov := map[string]any{
			"evaluations":         merged.Evaluations,
			"distinct_nontrivial": len(nt),
			"rule":                pc.rule,
			"samples":             merged.Samples,
			"labels":              merged.Labels,
			"excluded":            merged.Excluded,
			"shards":              shards,
			"exhaustive_parts":    exhList,
			"known_findings_hit":  knownKeys,
			"notes":               merged.Notes,
		}
		if exh && len(infra) == 0 && len(violFiles) == 0 && incomplete == 0 {
			cov["exhaustive"] = true
			cov["exhaustive_scope"] = "the parts listed in exhaustive_parts were enumerated completely; the remaining parts of this run are sampled"
		}
		evd := map[string]any{
			"property_id": id,
			"tier":        tier,
			"seed":        seed,
			"level":       pc.level,
			"coverage":    cov,
			"assumptions": pc.assume,
			"wall_s":      wall,
			"violations":  len(violFiles),
		}
		b, _ := json.MarshalIndent(evd, "", " ")
		_ = os.MkdirAll(filepath.Join(verifDir, "evidence"), 0o755)
		if err := os.WriteFile(filepath.Join(verifDir, "evidence", id+".json"), b, 0o644); err != nil {
			infra = append(infra, "cannot write evidence: "+err.Error())
		}
	}

	for _, k := range knownKeys {
		fmt.Printf("KNOWN-FINDING: property=%s %s :: %s\n", id, k, oneLine(merged.Known[k]))
	}

	// 4. verdict
	if len(violFiles) > 0 {
		dst := filepath.Join(verifDir, "replays", id)
		_ = os.MkdirAll(dst, 0o755)
		seen := map[string]bool{}
		for _, vf := range violFiles {
			b, _ := os.ReadFile(vf)
			var v ev.Violation
			_ = json.Unmarshal(b, &v)
			if seen[v.Key] {
				continue
			}
			seen[v.Key] = true
			name := fmt.Sprintf("%s-seed%d-%016x.json", tier, seed, ev.HashStr(string(b)))
			p := filepath.Join(dst, name)
			_ = os.WriteFile(p, b, 0o644)
			fmt.Printf("violation: key=%s what=%s\n", v.Key, oneLine(v.What))
			fmt.Printf("VIOLATION property=%s replay=%s\n", id, p)
		}
		return 1
	}
	if len(infra) > 0 {
		for _, m := range infra {
			fmt.Println("INFRA:", m)
		}
		return 2
	}
	if incomplete > 0 {
		fmt.Printf("INCONCLUSIVE: %d of %d shards did not complete their budget\n", incomplete, shards)
		return 2
	}
	fmt.Printf("OK property=%s tier=%s seed=%d evaluations=%d distinct_nontrivial=%d wall=%.1fs\n", id, tier, seed, merged.Evaluations, len(nt), wall)
	return 0
}

func tail(s string, n int) string {
	l := strings.Split(strings.TrimRight(s, "\n"), "\n")
	if len(l) > n {
		l = l[len(l)-n:]
	}
	return strings.Join(l, "\n")
}

func oneLine(s string) string {
	s = strings.ReplaceAll(s, "\n", " ⏎ ")
	if len(s) > 400 {
		s = s[:400] + "…"
	}
	return s
}

// guardDefaultCache empties the default Go build cache when it exceeds 6 GB.
func guardDefaultCache() {
	out, err := exec.Command("go", "env", "GOCACHE").Output()
	if err != nil {
		return
	}
	dir := strings.TrimSpace(string(out))
	if dir == "" {
		return
	}
	du, err := exec.Command("du", "-sm", dir).Output()
	if err != nil {
		return
	}
	var mb int
	fmt.Sscanf(string(du), "%d", &mb)
	if mb > 6000 {
		_ = exec.Command("go", "clean", "-cache").Run()
	}
}

// ensureBaseCache returns the directory of the base build cache, creating it when missing. It is keyed by
// the Go version and the pinned runtime version, and holds nothing of the repository under test.
func ensureBaseCache(verifDir, repo, scratch string) (string, error) {
	gomod, _ := os.ReadFile(filepath.Join(repo, "go.mod"))
	gover, _ := exec.Command("go", "version").Output()
	key := fmt.Sprintf("%016x", ev.HashStr(string(gover), string(gomod), fx.CatalogFingerprint()))
	base := filepath.Join(verifDir, ".cache", "gobase-"+key)
	if _, err := os.Stat(filepath.Join(base, "ready")); err == nil {
		return base, nil
	}
	// stale bases of other keys are removed
	old, _ := filepath.Glob(filepath.Join(verifDir, ".cache", "gobase-*"))
	for _, o := range old {
		_ = os.RemoveAll(o)
	}
	tmp := base + ".tmp"
	_ = os.RemoveAll(tmp)
	if err := fx.WarmBaseCache(tmp, filepath.Join(scratch, "warm"), repo); err != nil {
		return "", err
	}
	_ = os.WriteFile(filepath.Join(tmp, "ready"), []byte("ok"), 0o644)
	if err := os.Rename(tmp, base); err != nil {
		return "", err
	}
	return base, nil
}
