#!/bin/bash
# Run once after a fresh restore, offline: builds the driver and warms the build cache.
set -u
HERE="$(cd "$(dirname "${BASH_SOURCE[0]}")" && pwd)"
export GOFLAGS=-mod=mod GOPROXY=off GOSUMDB=off GOTOOLCHAIN=local
cd "$HERE/harness" || exit 2
mkdir -p "$HERE/.bin" "$HERE/evidence" "$HERE/replays"
go build -o "$HERE/.bin/vcheck" ./cmd/vcheck || exit 2
VERIF_DIR="$HERE" "$HERE/.bin/vcheck" warm || exit 2   # base build cache (std, runtime library, fixture packages)
T="$(mktemp -d)"; trap 'rm -rf "$T"' EXIT
go test -c -tags verif -o "$T/checks.test" ./checks || exit 2
(cd "${VERIF_REPO:-/repo}" && go build -o "$T/gontainer" .) || exit 2
echo "setup ok"
