#!/bin/bash
# Re-runs every quick check on the current (unchanged) tree so that the committed evidence describes such a run.
cd /verif || exit 2
git -C /repo status --short | grep -q . && { echo "/repo has uncommitted changes: refusing"; exit 2; }
for id in $(python3 -c "import json;print(' '.join(c['property_id'] for c in json.load(open('MANIFEST.json'))['checks']))"); do
  ./run.sh $id quick | tail -1
done
