#!/bin/bash
# tools/try_seed.sh <worktree> <seed-name> <ID> [<ID>...]
# Confirms a seeded change (tests pass with it; demo fails with it and passes without it), then applies it to
# a clean scratch worktree of /repo, runs the given checks (quick tier) against it (VERIF_REPO) and removes the worktree. Copies the material to /verif/seeded/<seed-name>/.
set -u
export GOFLAGS=-mod=mod GOPROXY=off GOSUMDB=off GOTOOLCHAIN=local
WT="$1"; NAME="$2"; shift 2
OUT=/verif/seeded/$NAME
mkdir -p "$OUT"
cd "$WT" || exit 2
git diff -- . ':(exclude)_seeded' > "$OUT/patch.diff"
[ -s "$OUT/patch.diff" ] || { echo "empty patch"; exit 2; }
cp -r _seeded/. "$OUT/demo/" 2>/dev/null || { mkdir -p "$OUT/demo"; cp -r _seeded/. "$OUT/demo/"; }
echo "== tests with the change"; (go build ./... && go test -vet=off -count=1 ./... 2>&1 | grep -v 'no test files' | grep -cv '^ok' ) | tail -1
TESTS_WITH=$(go test -vet=off -count=1 ./... >/dev/null 2>&1 && echo pass || echo FAIL)
echo "tests with change: $TESTS_WITH"
bash _seeded/demo.sh >/dev/null 2>&1; DEMO_WITH=$?
# (git stash is shared by all worktrees of a repository: toggle with apply -R instead)
git apply -R "$OUT/patch.diff"
bash _seeded/demo.sh >/dev/null 2>&1; DEMO_WITHOUT=$?
git apply "$OUT/patch.diff"
echo "demo with change: exit $DEMO_WITH (expected != 0); without: exit $DEMO_WITHOUT (expected 0)"
RES=""
# the checks run against a clean scratch worktree carrying only the patch (the agent's worktree also holds its demo
# files, which a corpus-collecting check such as C12 would pick up): /repo itself is never touched
CW="$(mktemp -d /tmp/tryseed.XXXXXX)"; rmdir "$CW"
git -C /repo worktree add -q --detach "$CW" HEAD || exit 2
git -C "$CW" apply "$OUT/patch.diff" || { echo "patch does not apply to /repo HEAD"; git -C /repo worktree remove --force "$CW"; exit 2; }
for id in "$@"; do
  cd /verif && VERIF_NO_SEED_REGRESS=1 VERIF_REPO="$CW" ./run.sh $id quick > "$OUT/check-$id.log" 2>&1; rc=$?
  echo "check $id: exit $rc :: $(grep -m1 '^violation:' "$OUT/check-$id.log" | cut -c1-260)"
  RES="$RES $id=$rc"
done
git -C /repo worktree remove --force "$CW"; git -C /repo worktree prune
git -C /verif checkout -- evidence 2>/dev/null || true
echo "RESULT $NAME tests=$TESTS_WITH demo_with=$DEMO_WITH demo_without=$DEMO_WITHOUT checks:$RES"
