#!/usr/bin/env python3
"""Writes the task descriptions handed to the independent sub-agents that seed realistic breaking changes.
usage: mk_seed_tasks.py <round-dir> <hints.json>   (hints.json: {ID: {"hints": "...", "extra_used": [...]}})
Each agent gets only: the property text, its own scratch worktree <round-dir>/<ID>, the ideas already used, and generic tool usage.
Nothing from /verif is shown to it."""
import json, glob, sys
rd, hf = sys.argv[1], sys.argv[2]
props = {json.loads(l)['id']: json.loads(l) for l in open('/verif/properties.jsonl')}
hints = json.load(open(hf))
used = {}
for f in sorted(glob.glob('/verif/seeded/*/meta.json')):
    d = json.load(open(f))
    used.setdefault(d['breaks_property'], []).append(d['change'])
for pid, h in hints.items():
    p = props[pid]
    earlier = "; ".join(f'"{u}"' for u in used.get(pid, []) + h.get("extra_used", []))
    wt = f"{rd}/{pid}"
    text = f"""# Task: produce ONE realistic, subtle bug ("seeded change") in a Go code base

You are helping evaluate a verification harness. Code base: a git worktree of the project gontainer/gontainer (a CLI that compiles YAML dependency-injection configs into Go source) at {wt} . Work ONLY inside {wt} . Do NOT read, list or use anything under /verif, /root/.vp, /repo, /tmp/seedwt* or other {rd} directories — your work must be independent of them. Do NOT use `git stash` (the stash is shared between sibling worktrees used by other agents): to test on unmodified code use `git diff -- . ':(exclude)_seeded' > _seeded/patch.diff; git apply -R _seeded/patch.diff; <run>; git apply _seeded/patch.diff`.

Shell environment: no network. Before every go command: `export GOFLAGS=-mod=mod GOPROXY=off GOSUMDB=off GOTOOLCHAIN=local`. `go build ./... && go test -vet=off -count=1 ./...` is the existing test suite (235 tests, a few seconds). The runtime library used by generated code is in the module cache (read-only): /root/go/pkg/mod/github.com/gontainer/gontainer-helpers/v3@v3.0.0-20231102220126-cd3ac9fbe738 . `go build -race` works offline. Build the CLI with `go build -o {wt}/gont.bin .` (a build version can be injected with `-ldflags "-X main.version=v1.2.3"`) and run `./gont.bin build -i some.yaml [-i more.yaml] -o out.go [--stub] [--quiet] [--ignore-missing-params] [--ignore-missing-services]`; it prints a step table and a numbered error list. The tool's own container internal/gontainer/gontainer.go is generated from internal/gontainer/*.yaml by `./gont.bin build -i internal/gontainer/gontainer.yaml -i 'internal/gontainer/gontainer_*.yaml' -o internal/gontainer/gontainer.go` (keep its `// gontainer version:` comment line unchanged); unless your task is about that file, keep the repository self-consistent by regenerating it whenever your change alters that output.

## The property the change must BREAK

{p['title']}: {p['statement']}

(Quantified over: {p['quantifier']['text']})

Relevant files: {', '.join(p['anchors']['files'])}

## Requirements

1. Read the relevant source and docs/*.md to understand how the tool works.
2. Make a SMALL change to the project's non-test source that breaks the property, such that the project still compiles and the whole existing test suite still passes unedited.
3. The breakage must need something SPECIFIC to manifest, not something ordinary use would expose at once. Earlier attempts already used these ideas: {earlier} — find a DIFFERENT one, in a different part of the code if possible. Ideas: {h['hints']}. Prefer a bug that looks like a plausible refactoring / optimisation / clean-up mistake a maintainer could make. Two cooperating sites that each look fine alone are welcome. Make it as hard to notice as you can while still being a real violation of the property as stated.
4. Write a demonstration: a self-contained script {wt}/_seeded/demo.sh (plus any YAML / Go files it needs under {wt}/_seeded/) that builds the tool and checks the property on specific input(s) — by inspecting exit status / diagnostics / output bytes, and where run-time behaviour matters by compiling the generated container together with a tiny Go main inside a temporary Go module that requires github.com/gontainer/gontainer-helpers/v3 at the same version as the project's go.mod and copies the project's go.sum — and exits 0 if the property holds for those inputs and non-zero if it is violated. It must FAIL (non-zero) with your change and PASS (exit 0) on the unmodified code. It must not leave build products behind (remove temporary binaries and directories).
5. Save the change as {wt}/_seeded/patch.diff (output of `git diff -- . ':(exclude)_seeded'`; tracked source files only, no binaries) and write {wt}/_seeded/README.md describing what the change is, which inputs manifest it and why ordinary ones do not, and the exact commands you ran with their outcomes (tests pass with the change; demo fails with it, passes without it).

Leave the worktree with your change applied. Do not commit. Keep everything you create inside {wt}. Report back a short summary: the idea of the bug, what it needs to manifest, and confirmation of the three outcomes.
"""
    open(f"{rd}/{pid}.task.md", "w").write(text)
print("ok", sorted(hints))
