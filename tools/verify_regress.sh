#!/bin/bash
# tools/verify_regress.sh [name-filter]
# For every seeded change with a stored regression case regress/<ID>/seed-<name>.json: the case must report a violation
# when replayed against a scratch worktree carrying the change (the stored case is effective), and must pass on /repo.
cd /verif || exit 2
FILTER="${1:-}"
WT="$(mktemp -d /tmp/seedwt.XXXXXX)"; rmdir "$WT"
git -C /repo worktree add -q --detach "$WT" HEAD || exit 2
trap 'git -C /repo worktree remove --force "$WT" 2>/dev/null; git -C /repo worktree prune; git -C /verif checkout -- evidence 2>/dev/null' EXIT
bad=0
for d in seeded/*/; do
  name=$(basename "$d")
  [ -n "$FILTER" ] && [[ "$name" != *$FILTER* ]] && continue
  prop=$(python3 -c "import json;print((lambda m: m.get('checked_by', m['breaks_property']))(json.load(open('$d/meta.json'))))")
  f="regress/$prop/seed-$name.json"
  [ -f "$f" ] || { echo "NOFILE  $name"; continue; }
  git -C "$WT" apply "/verif/$d/patch.diff" || { echo "PATCH?  $name"; bad=$((bad+1)); continue; }
  VERIF_REPO="$WT" ./run.sh "$prop" quick --replay "/verif/$f" > /tmp/vr.log 2>&1; with=$?
  git -C "$WT" checkout -- . ; git -C "$WT" clean -fdq
  ./run.sh "$prop" quick --replay "/verif/$f" > /tmp/vr2.log 2>&1; without=$?
  if [ $with -eq 1 ] && [ $without -eq 0 ]; then echo "OK      $name ($prop)"; else echo "BAD     $name ($prop) with=$with without=$without"; bad=$((bad+1)); fi
done
echo "bad=$bad"; exit $bad
