#!/usr/bin/env python3
"""Regenerates /verif/MANIFEST.json from the table below (keeps it schema-valid)."""
import json, os, subprocess, sys

HERE = os.path.dirname(os.path.dirname(os.path.abspath(__file__)))

def hook_commits():
    try:
        out = subprocess.check_output(["git", "-C", "/repo", "log", "--format=%H %s"], text=True)
        return [l.split()[0] for l in out.splitlines() if " verif:" in " " + l.split(" ", 1)[1] or l.split(" ", 1)[1].startswith("verif:")]
    except Exception:
        return []

CHECKS = {
 "C12": dict(
    level="exploration",
    technique="fuzzing through one in-process entry point with the output-file contract as in-target oracle: corpus replay (repository YAML, committed corpus, hostile constants, declared-version forms x build versions), rapid schema-aware YAML node confusion, rapid well-formed documents with injected semantic defects, rapid arbitrary glob patterns and flag subsets; the build version is part of every input; thorough tier adds Go native coverage-guided fuzzing (12 workers, fixed wall budget)",
    text="Searches the input space for panics, hangs and contract breaks; the quick tier is deterministic for a given VERIF_SEED (no native fuzzing), the thorough tier adds several hundred thousand coverage-guided executions.",
    note="Never establishes absence. Inputs with dense strongly connected components or over 64 KiB are skipped by an over-approximating pre-pass; goimports' package search is kept away from the module cache.",
    ref="DESIGN.md §4 C12"),
 "C19": dict(
    level="exploration",
    technique="fixpoint / differential check over generations (tool from tree -> regenerate -> rebuild scratch copy with the regenerated file -> regenerate) x rapid-drawn neutral perturbations of the repository's own configuration (key permutation, re-serialisation, file split, explicit list vs glob, absolute paths, cwd, environment, stub)",
    text="Each run regenerates internal/gontainer/gontainer.go and requires byte equality with the checked-in file (version line excepted) in both generations and under every perturbation that C08/C09 say must not matter.",
    note="Weak fit for generated search: there is one real input; the generated dimension is (perturbation, generation), stated in the evidence.",
    ref="DESIGN.md §4 C19"),
 "C10": dict(
    level="fault_enumeration",
    technique="complete enumeration of a fault matrix (configuration class x flag subset x output pre-state x input fault x companion input file, each with and without --quiet) against the real binary, plus rapid-generated configurations placed in drawn cells with the reference model as verdict oracle",
    text="Every cell of the 21 x 8 x 8 x 5 x 7 matrix (configuration class x flag subset x output pre-state x input fault x companion file: none / a valid second file before / after / matched by the same glob / with commas, quotation marks or 41 multi-byte characters in its name); the quick tier runs every cell of the first four arrangements and a seed-dependent third of the name variants is executed in both tiers; the iff between exit status 0 and a complete written file, the untouched -o path on every failure (lstat-level comparison), the numbered list / step count agreement and the --quiet contract are checked in each.",
    note="Root sandbox: unwritable outputs are injected as directory, missing parent and /dev/full rather than by permissions; stdout faults are out of scope.",
    ref="DESIGN.md §4 C10"),
 "C08": dict(
    level="exploration",
    technique="differential testing of the real binary against itself: N fresh processes (fresh map-iteration orders) x environment and working-directory variants on hand-built multi-defect documents, failing writes (output path is a directory / has no parent / is full) and rapid-generated configurations; metamorphic key permutations of every YAML mapping",
    text="Byte-identity of stdout and of the generated file across repeated executions and neutral perturbations, and of the generated file across key permutations; inputs are built so that every order-sensitive map holds at least two entries and every defect class is present at least twice.",
    note="Probabilistic for map-order dependence: a 2-entry site shows its rarer order in 1 iteration of 8 (Go starts small maps at a random slot), so it escapes n repetitions with probability (7/8)^n: 10 fresh processes + 48 in-process repetitions per document in the quick tier (0.05%), 24 + 48 in the thorough tier (0.007%); stdout is not claimed under key permutations.",
    ref="DESIGN.md §4 C08"),
 "C09": dict(
    level="exploration",
    technique="metamorphic + model-based: rapid splitter that distributes a configuration over files according to the documented merge rules, drawn file-naming schemes where glob order and lexical order differ; byte-identity with the single-file form, with the reference merge, and under re-bracketing; hand-built overriding pair per attribute",
    text="Split invariance, agreement with an independent reference merge, associativity and the empty-file identity are checked on the bytes of the generated file for thousands of (configuration, split, naming) triples; every attribute's override rule is enumerated.",
    note="Trusts the harness's splitter (guarded: the split must merge back to the whole under the reference merge, else the case is discarded and counted) and the reference merge.",
    ref="DESIGN.md §4 C09"),
 "C11": dict(
    level="exploration",
    technique="bounded-exhaustive strings per grammar position against hand-written recursive recognisers (differential with the repository's regular expressions), rapid edit-mutated valid forms, hand-enumerated node-kind/shape documents, rapid k-subsets of simultaneous violations",
    text="Complete inside the bound for the accepted language of all 22 positions and for the claim that every violation is reported with its key in one run; shapes of calls/tags, scope keywords, creation rules, must_getter and the todo exemption are enumerated by hand.",
    note="Trusts the harness's recognisers (written from the documented grammar) and the report parser; diagnostics are compared as (key, attribute) sets.",
    ref="DESIGN.md §4 C11"),
 "C03": dict(
    level="exploration",
    technique="bounded-exhaustive strings over a 10-symbol alphabet (two-pass: rejected-key set vs reference pattern parser, then compiled evaluation vs reference evaluator), round-trip law on rapid Unicode strings with doubled %, rapid chunk sequences with environment variation against the DI interpreter",
    text="Complete inside the bound for the accept/reject decision of every %-pattern and for the evaluated Go type and value of every accepted one, at the three positions a pattern can occur in; the doubling round-trip and function/env semantics are sampled over Unicode and chunk sequences.",
    note="Trusts the reference pattern parser/evaluator (written from the documentation) and the probe; function arguments that are not literal lists are verdict-only (documented precondition).",
    ref="DESIGN.md §4 C03"),
 "C20": dict(
    level="exploration",
    technique="rapid-generated concurrent scripts (an optional sequential prelude of OverrideParam / OverrideService on configurations with placeholders, then goroutine fan-out behind a barrier, drawn programmes, Gosched points, GOMAXPROCS 2/16, repeated rounds) and hand-built members executed in a probe built with the Go race detector; invariants over the collected history against the sequential DI model",
    text="Samples schedules under -race: any race report, crash or deadlock is a violation, as is a shared service with two instances, a contextual instance seen in two contexts, a parameter function evaluated more often than sequentially, or a result that differs structurally from the sequential model.",
    note="Schedule sampling, not enumeration (the harness does not own the Go scheduler); trusts the race detector and the fixture's synchronised recording layer.",
    ref="DESIGN.md §4 C20"),
 "C14": dict(
    level="exploration",
    technique="rapid alias-heavy generator over confusable fixture paths with identical self-identifying symbols; oracle = whole-first-segment alias rule (reference model) on observed object package IDs and reflected getter signatures, plus go/parser checks of the import block",
    text="Every reference position and spelling is exercised under alias tables built to collide (prefixes of aliases, of path segments, of template imports; equal last path elements; characters illegal in identifiers); the probe reads which package each symbol really came from.",
    note="Same trusted base as C02. Aliases equal to a package the generated code imports itself are part of the pools. A non-compiling output counts as a C14 violation.",
    ref="DESIGN.md §4 C14"),
 "C15": dict(
    level="exploration",
    technique="stateful history testing: bounded-exhaustive histories (length <= 3/4) of GetParam/Get/GetTaggedBy/OverrideParam/OverrideService on small configurations, rapid-drawn histories on generated configurations with todo placeholders; model = DI interpreter with parameter/service caches and invocation counters",
    text="Decides the todo error contract, the override-then-get workflow with the runtime's caching (what keeps its value, what sees the override) and laziness of parameter evaluation (invocation counters are zero after construction and grow only by need) for every enumerated history and thousands of random ones.",
    note="Same trusted base as C02; override values are literals and marker services.",
    ref="DESIGN.md §4 C15"),
 "C17": dict(
    level="exploration",
    technique="differential testing normal vs --stub on rapid-generated accepted and defect-injected configurations: verdict parity, go/parser API-surface parity, compilation of both (stub with its tag, and against a types-only variant of the fixture module), reflection parity and panic behaviour in a probe",
    text="For every generated configuration the two modes must agree on accept/reject and diagnostics; for accepted ones the declared API (package, type, constructor, every method signature) must be identical, the stub must compile while the user packages offer types only, and its constructor and getters must panic.",
    note="Trusts go/parser/printer for the surface comparison and the Go toolchain for compilation. Known finding K3 (7 keys): a configuration whose only defect is an expression that cannot be valid Go is rejected by the formatter in normal mode and accepted with --stub; enumerated per position, reported as KNOWN-FINDING.",
    ref="DESIGN.md §4 C17"),
 "C13": dict(
    level="exploration",
    technique="complete enumeration of the getter collision/rejection space + rapid-generated accepted configurations whose generated type is reflected (method set with fully-qualified signatures) and whose getters / must-getters are called in a probe, against the documented rule",
    text="The rejection side (reserved names from reflection over the pinned runtime, Must/InContext, must_getter truth table, duplicate getters) is enumerated completely; on the accepted side the exact exported method set, signatures and names of the generated type are compared with the rule for thousands of configurations, and getter results are compared with Get through the DI model (including error and panic paths).",
    note="Trusts reflection in the probe and in the harness (same pinned runtime); unexported getters are only compiled, not called.",
    ref="DESIGN.md §4 C13"),
 "C02": dict(
    level="exploration",
    technique="rapid-generated accepted configurations compiled and executed against the real runtime; model-based oracle: a DI interpreter written from the documentation predicts every object graph; comparison modulo a bijection of instance serial numbers; hostile-local enumeration (K2) and the C01 feature lattice are executed too; a compile error of an accepted configuration is a violation",
    text="Batches of behavioural configurations (all creation methods, argument forms and positions, fields, calls, withers, receiver kinds, scopes, todo/failing dependencies) are compiled, linked with the pinned runtime and probed; every returned object must equal the predicted descriptor tree and every predicted failure must surface as an error.",
    note="Trusts the DI interpreter (written from docs, cross-validated on the unchanged tree and against 36 seeded changes), the fixture objects' self-description and the Go toolchain. Open known finding (14 keys): own-package symbols named like local variables of the generated constructor are shadowed; enumerated and reported as KNOWN-FINDING.",
    ref="DESIGN.md §4 C02"),
 "C04": dict(
    level="exploration",
    technique="rapid tag-heavy generator (priority ties, negatives, several decorators per tag, 1..3 files) + DI-interpreter oracle on GetTaggedBy results and decorator chains observed through wrapper objects",
    text="Decides order and membership of tagged slices and the order, payload and arguments of decorator application for thousands of tag/decorator constellations, including decorator order across merged files.",
    note="Same trusted base as C02; decorator tag * is excluded from behavioural cases.",
    ref="DESIGN.md §4 C04"),
 "C05": dict(
    level="exploration",
    technique="bounded-exhaustive enumeration of acyclic service graphs x edge kind x scope assignment for the verdict; rapid-generated scope-heavy configurations with stateful histories of Get/GetInContext/GetTaggedBy for instance identity, against the DI interpreter",
    text="The shared-on-contextual rule is decided completely for all graphs on <= 3 services (7920 cases) and sampled beyond; instance identity across histories (same context, different contexts, no context) is compared with the model's partition for every object occurrence.",
    note="Same trusted base as C02 plus the reference scope analysis; cyclic graphs are C07's.",
    ref="DESIGN.md §4 C05"),
 "C06": dict(
    level="exploration",
    technique="defect injection at every reference position (exhaustive position x reference-text matrix + rapid-mutated valid configurations) against an independent reference analysis; accepted outputs are compiled and probed",
    text="References are removed, renamed or added at every position (parameter chunk single/multi/after %%, constructor, call, field, decorator argument) one at a time and in combination; the accept/reject verdict and the exact set of (referrer, missing name) facts are compared with the reference model, and accepted containers are executed to show no 'does not exist' at run time.",
    note="Trusts the reference analysis (own pattern parser and reference walk) and the report parser; wording of diagnostics is not compared, only the facts named.",
    ref="DESIGN.md §4 C06"),
 "C07": dict(
    level="exploration",
    technique="bounded-exhaustive enumeration of small dependency structures + rapid sparse random graphs; oracle = own graph construction and Tarjan SCC; cycle reports validated edge by edge; accepted containers probed for CircularDeps()/termination",
    text="Complete for the enumerated spaces (512 parameter structures, 256 three-service structures, and in the thorough tier all 2^19 structures on 2 services x 2 tags x 1..2 decorators), sampling beyond; decides both directions: cyclic => rejected with a cycle through every element on one, acyclic => accepted and the running container terminates.",
    note="Trusts the harness's graph code; components with more than 7 nodes and more than 24 internal edges are skipped (counted) because elementary-cycle enumeration is exponential there.",
    ref="DESIGN.md §4 C07"),
 "C16": dict(
    level="exploration",
    technique="metamorphic relation across the four flag combinations (in four spellings of the switches; --quiet and --stub parity of the decision / the remaining diagnostics) plus reference-model verdicts, on injected-defect mixes (all 32 class subsets + rapid random mixes); the exhaustive subsets and configurations with 255 / 256 / 512 remaining diagnostics also through the linked binary (exit status)",
    text="Every case is run under all four flag combinations; the diagnostics under flags must be exactly the unflagged diagnostics minus the ignored classes, acceptance must follow, and accepted configurations must produce byte-identical output under every combination.",
    note="Trusts the report parser; fact sets, not wording, are compared.",
    ref="DESIGN.md §4 C16"),
 "C01": dict(
    level="exploration",
    technique="rapid-generated valid-by-construction configurations + bounded feature lattice; oracle = go/format + go/parser + the real Go type checker and linker on the generated package inside a fixture module pinned to the repository's runtime version, then package initialisation in a probe binary",
    text="Thousands of accepted configurations per run (random batches over all documented features in normal and --stub mode, every single feature and feature pairs of a 50+-entry lattice) are compiled and initialised against the real runtime; any accepted configuration whose output is not gofmt-stable, does not type-check or panics in init is a violation.",
    note="Trusts the Go toolchain as judge and the fixture universe (every named symbol exists with a compatible shape). Identifier pools exclude keywords/predeclared names (the property's precondition). No open known finding (the alias/template-import defect found here was repaired in the repository).",
    ref="DESIGN.md §4 C01"),
 "C18": dict(
    level="exploration",
    technique="bounded-exhaustive + rapid random generation of (build, declared) version pairs against an independent strict-semver oracle; differential in-process vs linked binaries (linker-injected versions with and without the v prefix and the other release variables, and versions taken from the build info)",
    text="Every pair of the 96x96 version grid, all listed non-semver builds and malformed declarations, plus random large semvers are run end to end and compared with a reference implementation of the stated rule; complete inside the grid, sampling beyond it.",
    note="Trusts the harness's own strict semver parser and the report parser; shorthand versions (1, 1.2) are outside the domain; binaries are linked with -X main.version to cover main.go.",
    ref="DESIGN.md §4 C18"),
}

NOT_APPLICABLE = {}

def main():
    props = [json.loads(l)["id"] for l in open(os.path.join(HERE, "properties.jsonl")) if l.strip()]
    checks = []
    for pid in props:
        c = CHECKS.get(pid)
        if not c:
            continue
        checks.append({
            "property_id": pid,
            "quick_cmd": f"./run.sh {pid} quick",
            "thorough_cmd": f"./run.sh {pid} thorough",
            "evidence_file": f"/verif/evidence/{pid}.json",
            "replay_cmd_template": f"./run.sh {pid} quick --replay {{path}}",
            "engine": "vcheck",
            "level_claimed": {"category": c["level"], "text": c["text"], "design_ref": c["ref"]},
            "level_note": c["note"],
            "technique": c["technique"],
        })
    na = [{"property_id": p, "reason": NOT_APPLICABLE.get(p, "check not built yet in this revision of /verif (work in progress; see DESIGN.md §8 build order)")}
          for p in props if p not in CHECKS]
    m = {
        "version": 1,
        "setup_cmd": "./setup.sh",
        "hooks": {
            "guard": "verif",
            "enable": "go build/test -tags verif (the harness imports github.com/gontainer/gontainer/verifhook, which only exists under that tag)",
            "baseline_off_cmd": "cd /repo && GOFLAGS=-mod=mod GOPROXY=off GOSUMDB=off go test -json -vet=off -count=1 -timeout 25m ./...",
            "source_commits": hook_commits(),
            "add_only": True,
        },
        "engines": [{
            "name": "vcheck",
            "path": "/verif/harness",
            "serves_properties": [c["property_id"] for c in checks],
            "kind_free_text": "Go harness: pgregory.net/rapid v1.3.0 generators + bounded-exhaustive enumerators + native go fuzzing, an independent reference model (harness/ref), end-to-end observation through the in-process build command (hook) / the real binary / compiled generated code linked with the pinned runtime",
        }],
        "checks": checks,
        "notes": "Every command is ./run.sh <ID> <tier> (quick 5-110 s, thorough 1-11 min per property on 16 cores); VERIF_SEED selects the rapid seeds; exit 0 held / 1 VIOLATION / 2 infrastructure or inconclusive. Known findings live in /verif/known_findings.json.",
        "not_applicable": na,
    }
    json.dump(m, open(os.path.join(HERE, "MANIFEST.json"), "w"), indent=1)
    print("wrote MANIFEST.json with", len(checks), "checks;", len(na), "not claimed")

main()
