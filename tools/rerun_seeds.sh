#!/bin/bash
# tools/rerun_seeds.sh [tier] [name-filter]: applies every seeded change to /repo's working tree, runs the check of the
# property it breaks, restores /repo, and prints a table. A seeded change that is not caught is a regression of the
# machinery's sensitivity.
cd /verif || exit 2
TIER="${1:-quick}"; FILTER="${2:-}"
git -C /repo status --short | grep -q . && { echo "/repo has uncommitted changes: refusing"; exit 2; }
missed=0
for d in seeded/*/; do
  name=$(basename "$d")
  [ -n "$FILTER" ] && [[ "$name" != *$FILTER* ]] && continue
  prop=$(python3 -c "import json;print(json.load(open('$d/meta.json'))['breaks_property'])")
  git -C /repo apply "/verif/$d/patch.diff" || { echo "$name: patch does not apply"; missed=$((missed+1)); continue; }
  ./run.sh "$prop" "$TIER" > /tmp/rerun-seed.log 2>&1; rc=$?
  git -C /repo checkout -- .
  v=$(grep -m1 '^violation:' /tmp/rerun-seed.log | cut -c1-150)
  if [ $rc -eq 1 ] && [ -n "${KEEP_REPLAYS:-}" ]; then
    rp=$(grep -m1 '^VIOLATION' /tmp/rerun-seed.log | sed 's/.*replay=//')
    [ -f "$rp" ] && mkdir -p "regress/$prop" && cp "$rp" "regress/$prop/seed-$name.json"
  fi
  if [ $rc -eq 1 ]; then echo "CAUGHT  $name ($prop) :: $v"; else echo "MISSED  $name ($prop) exit=$rc :: $(tail -1 /tmp/rerun-seed.log | cut -c1-150)"; missed=$((missed+1)); fi
done
git checkout -- evidence 2>/dev/null
echo "missed=$missed"
exit $missed
