#!/bin/bash
# tools/rerun_seeds.sh [tier] [name-filter]
# Sensitivity regression of the machinery: every seeded change under /verif/seeded is applied to a scratch git worktree
# of /repo (never to /repo itself), the check of the property it breaks is run against that worktree (VERIF_REPO), and
# the result is reported as CAUGHT / MISSED. With KEEP_REPLAYS=1 the shrunk replay file of each caught change is copied
# to regress/<ID>/seed-<name>.json.
cd /verif || exit 2
TIER="${1:-quick}"; FILTER="${2:-}"
WT="$(mktemp -d /tmp/seedwt.XXXXXX)"; rmdir "$WT"
git -C /repo worktree add -q --detach "$WT" HEAD || exit 2
trap 'git -C /repo worktree remove --force "$WT" 2>/dev/null; git -C /repo worktree prune' EXIT
missed=0
for d in seeded/*/; do
  name=$(basename "$d")
  [ -n "$FILTER" ] && [[ "$name" != *$FILTER* ]] && continue
  prop=$(python3 -c "import json;print((lambda m: m.get('checked_by', m['breaks_property']))(json.load(open('$d/meta.json'))))")
  git -C "$WT" apply "/verif/$d/patch.diff" || { echo "MISSED  $name: patch does not apply"; missed=$((missed+1)); git -C "$WT" checkout -- .; continue; }
  log=$(mktemp)
  VERIF_NO_SEED_REGRESS=1 VERIF_REPO="$WT" ./run.sh "$prop" "$TIER" > "$log" 2>&1; rc=$?
  git -C "$WT" checkout -- . ; git -C "$WT" clean -fdq
  v=$(grep -m1 '^violation:' "$log" | cut -c1-150)
  if [ $rc -eq 1 ] && [ -n "${KEEP_REPLAYS:-}" ]; then
    rp=$(grep -m1 '^VIOLATION' "$log" | sed 's/.*replay=//')
    [ -f "$rp" ] && mkdir -p "regress/$prop" && cp "$rp" "regress/$prop/seed-$name.json"
  fi
  if [ $rc -eq 1 ]; then echo "CAUGHT  $name ($prop) :: $v"; else echo "MISSED  $name ($prop) exit=$rc :: $(tail -1 "$log" | cut -c1-150)"; missed=$((missed+1)); fi
  rm -f "$log"
done
git checkout -- evidence 2>/dev/null
echo "missed=$missed"
exit $missed
